fn k_bmoc_views(view: u8, n: usize, dm: u8) {
  let a = any_ops(n, dm);
  let c: u64 = kani::any();
  let k: u32 = kani::any();
  kani::assume(a.valid() && c < spec_n_hash(dm));
  kani::cover!(n == 0 || a.d[0] < dm, "an entry above depth_max");
  p_bmoc_views(view, &a, c, k);
}

fn k_fixed_builder(depth: u8, cap: usize, m: usize) {
  let is_full: bool = kani::any();
  let p0: u64 = kani::any();
  let p1: u64 = kani::any();
  let p2: u64 = kani::any();
  let p3: u64 = kani::any();
  let c: u64 = kani::any();
  let nh = spec_n_hash(depth);
  kani::assume(c < nh && (m < 1 || p0 < nh) && (m < 2 || p1 < nh) && (m < 3 || p2 < nh) && (m < 4 || p3 < nh));
  if m >= 2 { kani::cover!(p1 < p0, "unsorted pushes"); kani::cover!(p1 == p0, "duplicate push"); }
  p_fixed_builder(depth, is_full, cap, m, p0, p1, p2, p3, c);
}

/// Model of `slice::sort_unstable` (environment: std) for the fixed-depth builder harnesses: an insertion sort on at most 4
/// elements, the bound being asserted. The std implementation (pattern-defeating quicksort + recursion) is out of reach of the
/// symbolic execution even for 2 elements (symbolic length).
pub(crate) fn model_sort<T: Ord>(v: &mut [T]) {
  assert!(v.len() <= 4, "verif model: sort of more than 4 elements");
  let n = v.len();
  let mut i = 1;
  while i < n {
    let mut j = i;
    while j > 0 && v[j - 1] > v[j] { v.swap(j - 1, j); j -= 1; }
    i += 1;
  }
}
