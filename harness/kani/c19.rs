static mut PLANE: (u64, u64) = (0, 0);
pub(crate) fn stub_proj(_lon: f64, _lat: f64) -> (f64, f64) { unsafe { (f64::from_bits(PLANE.0), f64::from_bits(PLANE.1)) } }
pub(crate) fn stub_unproj(x: f64, y: f64) -> (f64, f64) { assert!(y >= -2.0 && y <= 2.0, "unproj domain: y outside [-2, 2]"); (x, y) }

fn in_image(x: f64, y: f64, eps: f64) -> bool {
  let ay = if y < 0.0 { -y } else { y };
  if !(x >= 0.0 && x <= 8.0 && ay <= 2.0) { return false; }
  if ay <= 1.0 { return true; }
  let mut q = (x * 0.5) as u64 as f64;
  if q > 3.0 { q = 3.0; }
  let u = x - (2.0 * q + 1.0);
  let au = if u < 0.0 { -u } else { u };
  au <= (2.0 - ay) + eps
}

/// region: 0 = any image point, 1 = points whose cell lacks a cardinal neighbour (next to a three-cell point)
fn k_c19_point(depth: u8, region: u8, band: u8) {
  let x: f64 = kani::any();
  let y: f64 = kani::any();
  kani::assume(in_image(x, y, 8.881784197001252e-16));
  kani::assume(match band { 0 => y > 1.0, 1 => y >= -1.0 && y <= 1.0, _ => y < -1.0 });
  unsafe { PLANE = (x.to_bits(), y.to_bits()); }
  let layer = hp::nested::get_or_create(depth);
  let (h, dx, dy) = layer.hash_with_dxdy(0.0, 0.0);
  kani::assume(h < spec_n_hash(depth) && dx >= 0.0 && dx <= 1.0 && dy >= 0.0 && dy <= 1.0);   // decided by C03 (image harness)
  if region == 1 {
    let m = layer.neighbours(h, false);
    kani::assume(m.get(MainWind::S).is_none() || m.get(MainWind::E).is_none() || m.get(MainWind::N).is_none() || m.get(MainWind::W).is_none());
  }
  kani::cover!(dx > 0.5 && dy > 0.5, "north quadrant");
  kani::cover!(dx < 0.5 && dy > 0.5, "west quadrant");
  let res = layer.bilinear_interpolation(0.0, 0.0);
  c19_check(depth, &res, h, dx, dy);
}
