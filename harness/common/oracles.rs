// Oracles that are independent of the code under test. Plain Rust (no kani items) so that the native
// replay crate compiles the very same file.

/// Bit-loop specification of the z-order curve: bits of i at even positions, bits of j at odd positions.
pub fn spec_interleave(i: u32, j: u32) -> u64 {
  let mut h = 0u64;
  let mut k = 0u32;
  while k < 32 {
    h |= (((i >> k) & 1) as u64) << (2 * k);
    h |= (((j >> k) & 1) as u64) << (2 * k + 1);
    k += 1;
  }
  h
}

/// Inverse of `spec_interleave` by a bit loop.
pub fn spec_deinterleave(h: u64) -> (u32, u32) {
  let mut i = 0u32;
  let mut j = 0u32;
  let mut k = 0u32;
  while k < 32 {
    i |= (((h >> (2 * k)) & 1) as u32) << k;
    j |= (((h >> (2 * k + 1)) & 1) as u32) << k;
    k += 1;
  }
  (i, j)
}

/// Number of cells at a depth, written independently of the crate: 12 * 4^depth.
pub fn spec_n_hash(depth: u8) -> u64 {
  12u64 << (2 * depth as u32)
}

/// De-interleave only the 2*d low bits (d iterations): (i, j) of the in-base-cell part of a hash.
pub fn spec_deinterleave_d(h: u64, d: u8) -> (u32, u32) {
  let mut i = 0u32;
  let mut j = 0u32;
  let mut k = 0u32;
  while k < d as u32 {
    i |= (((h >> (2 * k)) & 1) as u32) << k;
    j |= (((h >> (2 * k + 1)) & 1) as u32) << k;
    k += 1;
  }
  (i, j)
}

/// (base cell, i, j) of a nested hash, by the definition of the nested scheme.
pub fn spec_decode(d: u8, h: u64) -> (u8, u32, u32) {
  let b = (h >> (2 * d as u32)) as u8;
  let (i, j) = spec_deinterleave_d(h, d);
  (b, i, j)
}

pub fn spec_encode(d: u8, b: u8, i: u32, j: u32) -> u64 {
  let mut h = (b as u64) << (2 * d as u32);
  let mut k = 0u32;
  while k < d as u32 {
    h |= (((i >> k) & 1) as u64) << (2 * k);
    h |= (((j >> k) & 1) as u64) << (2 * k + 1);
    k += 1;
  }
  h
}

// ------------------------------------------------------------------------------------------------------------
// Plane integer geometry (DESIGN.md 3.4). Unit = 1/nside of the HEALPix projection plane, so that every cell
// centre and vertex has integer coordinates. The 12 base-cell centres are written out as a table
// (Calabretta & Roukema 2007, fig. 1 / Gorski 2005 fig. 4), not computed by the crate.
// ------------------------------------------------------------------------------------------------------------

pub const BASE_CX: [i64; 12] = [1, 3, 5, 7, 0, 2, 4, 6, 1, 3, 5, 7];
pub const BASE_CY: [i64; 12] = [1, 1, 1, 1, 0, 0, 0, 0, -1, -1, -1, -1];

/// Centre of cell (b, i, j) of depth d, x reduced to [0, 8 nside).
pub fn plane_center(d: u8, b: u8, i: u32, j: u32) -> (i64, i64) {
  let n = 1i64 << d;
  let x = i as i64 - j as i64 + BASE_CX[b as usize] * n;
  let y = i as i64 + j as i64 - (n - 1) + BASE_CY[b as usize] * n;
  (x & (8 * n - 1), y)
}

/// Canonical representative of a grid point for the identifications of the sphere:
/// x modulo 8 nside; in a polar cap the boundary u = t of facet q is the boundary u = -t of facet q+1; t = 0 is the pole.
pub fn plane_canon(d: u8, x: i64, y: i64) -> (i64, i64) {
  let n = 1i64 << d;
  let x = x & (8 * n - 1);
  let ay = if y < 0 { -y } else { y };
  if ay > n {
    let t = 2 * n - ay;
    if t == 0 { return (0, y); }
    let q = x >> (d as u32 + 1);
    let u = x - (2 * q + 1) * n;
    if u == t { return (((2 * q + 3) * n - t) & (8 * n - 1), y); }
  }
  (x, y)
}

/// Canonical vertices [S, E, N, W] of the cell of centre (cx, cy).
pub fn plane_vertices(d: u8, cx: i64, cy: i64) -> [(i64, i64); 4] {
  [plane_canon(d, cx, cy - 1), plane_canon(d, cx + 1, cy), plane_canon(d, cx, cy + 1), plane_canon(d, cx - 1, cy)]
}

pub fn plane_cell_vertices(d: u8, h: u64) -> [(i64, i64); 4] {
  let (b, i, j) = spec_decode(d, h);
  let (cx, cy) = plane_center(d, b, i, j);
  plane_vertices(d, cx, cy)
}

/// Number of canonical vertices shared by two vertex sets (each set has 4 distinct points).
pub fn plane_n_shared(va: &[(i64, i64); 4], vc: &[(i64, i64); 4]) -> u32 {
  let mut n = 0u32;
  let mut k = 0;
  while k < 4 {
    let mut l = 0;
    while l < 4 {
      if va[k].0 == vc[l].0 && va[k].1 == vc[l].1 { n += 1; }
      l += 1;
    }
    k += 1;
  }
  n
}

pub fn plane_has_vertex(vc: &[(i64, i64); 4], p: (i64, i64)) -> bool {
  (vc[0].0 == p.0 && vc[0].1 == p.1) || (vc[1].0 == p.0 && vc[1].1 == p.1)
    || (vc[2].0 == p.0 && vc[2].1 == p.1) || (vc[3].0 == p.0 && vc[3].1 == p.1)
}

/// The 8 points of the sphere where only three cells meet: (2 q nside, +-nside).
pub fn plane_is_three_cell_point(d: u8, p: (i64, i64)) -> bool {
  let n = 1i64 << d;
  (p.1 == n || p.1 == -n) && (p.0 & (2 * n - 1)) == 0
}

// ------------------------------------------------------------------------------------------------------------
// BMOC oracle: three-valued set semantics over deepest-level cells (DESIGN.md 3.4)
// ------------------------------------------------------------------------------------------------------------

pub const ABSENT: u8 = 0;
pub const PARTIAL: u8 = 1;
pub const FULL: u8 = 2;

/// Documented raw layout of a BMOC entry: hash bits, sentinel bit 1, 2*(depth_max-depth) zero bits, flag bit.
pub fn spec_raw(depth_max: u8, depth: u8, hash: u64, full: bool) -> u64 {
  (((hash << 1) | 1) << (1 + 2 * (depth_max - depth) as u32)) | (full as u64)
}

/// Decode a raw entry from its documented layout: the sentinel is the lowest set bit above the flag and must sit at an
/// even offset 2*(depth_max-depth). Returns None when the value is not a valid encoding (no sentinel, odd offset,
/// depth or hash out of range).
pub fn spec_raw_decode(depth_max: u8, raw: u64) -> Option<(u8, u64, bool)> {
  let full = (raw & 1) == 1;
  let v = raw >> 1;
  if v == 0 { return None; }
  let tz = v.trailing_zeros();
  if (tz & 1) != 0 || (tz >> 1) > depth_max as u32 { return None; }
  let depth = depth_max - (tz >> 1) as u8;
  let hash = v >> (tz + 1);
  if hash < spec_n_hash(depth) { Some((depth, hash, full)) } else { None }
}

/// State of the deepest-level cell `c` (a cell of depth `probe_depth` >= depth_max of the entries)
/// in a list of raw entries.
pub fn spec_state_raw(depth_max: u8, entries: &[u64], probe_depth: u8, c: u64) -> u8 {
  let mut k = 0usize;
  let mut st = ABSENT;
  while k < entries.len() {
    if let Some((d, h, f)) = spec_raw_decode(depth_max, entries[k]) {
      if (c >> (2 * (probe_depth - d) as u32)) == h { st = if f { FULL } else { PARTIAL }; }
    }
    k += 1;
  }
  st
}

/// An operand described by its tuples (what the harness itself pushed). At most 4 entries.
#[derive(Clone, Copy)]
pub struct Ops {
  pub dm: u8,
  pub n: usize,
  pub d: [u8; 4],
  pub h: [u64; 4],
  pub f: [bool; 4],
}

impl Ops {
  /// valid = depths <= dm, hashes in range, strictly increasing in z-order and pairwise disjoint
  pub fn valid(&self) -> bool {
    if self.dm > 29 || self.n > 4 { return false; }
    let mut k = 0usize;
    while k < self.n {
      if self.d[k] > self.dm || self.h[k] >= spec_n_hash(self.d[k]) { return false; }
      if k > 0 {
        let end_prev = (self.h[k - 1] + 1) << (2 * (self.dm - self.d[k - 1]) as u32);
        let start = self.h[k] << (2 * (self.dm - self.d[k]) as u32);
        if end_prev > start { return false; }
      }
      k += 1;
    }
    true
  }
  pub fn all_full(&self) -> bool {
    let mut k = 0usize;
    while k < self.n { if !self.f[k] { return false; } k += 1; }
    true
  }
  /// no four full sibling cells (canonical packed form)
  pub fn packed(&self) -> bool {
    let mut k = 0usize;
    while k + 3 < self.n {
      if self.f[k] && self.f[k + 1] && self.f[k + 2] && self.f[k + 3] && self.d[k] >= 1
        && self.d[k + 1] == self.d[k] && self.d[k + 2] == self.d[k] && self.d[k + 3] == self.d[k]
        && (self.h[k] & 3) == 0 && self.h[k + 1] == self.h[k] + 1 && self.h[k + 2] == self.h[k] + 2 && self.h[k + 3] == self.h[k] + 3 {
        return false;
      }
      k += 1;
    }
    true
  }
  pub fn state(&self, probe_depth: u8, c: u64) -> u8 {
    let mut k = 0usize;
    let mut st = ABSENT;
    while k < self.n {
      if (c >> (2 * (probe_depth - self.d[k]) as u32)) == self.h[k] { st = if self.f[k] { FULL } else { PARTIAL }; }
      k += 1;
    }
    st
  }
}

/// Well-formedness of a list of raw entries (C09): valid encodings, depth <= depth_max, hash in range,
/// strictly increasing z-order, pairwise disjoint. Returns the index of the first offending entry.
pub fn spec_wf(depth_max: u8, entries: &[u64]) -> Option<usize> {
  let mut k = 0usize;
  let mut prev_end = 0u64;
  while k < entries.len() {
    match spec_raw_decode(depth_max, entries[k]) {
      None => return Some(k),
      Some((d, h, _)) => {
        let sh = 2 * (depth_max - d) as u32;
        let start = h << sh;
        if k > 0 && start < prev_end { return Some(k); }
        if k > 0 && !(entries[k - 1] < entries[k]) { return Some(k); }
        prev_end = (h + 1) << sh;
      }
    }
    k += 1;
  }
  None
}

/// Packedness of raw entries: index of the first of four full sibling entries, if any.
pub fn spec_not_packed(depth_max: u8, entries: &[u64]) -> Option<usize> {
  let mut k = 0usize;
  while k + 3 < entries.len() {
    if let (Some((d0, h0, f0)), Some((d1, h1, f1)), Some((d2, h2, f2)), Some((d3, h3, f3))) =
      (spec_raw_decode(depth_max, entries[k]), spec_raw_decode(depth_max, entries[k + 1]),
       spec_raw_decode(depth_max, entries[k + 2]), spec_raw_decode(depth_max, entries[k + 3])) {
      if f0 && f1 && f2 && f3 && d0 >= 1 && d1 == d0 && d2 == d0 && d3 == d0
        && (h0 & 3) == 0 && h1 == h0 + 1 && h2 == h0 + 2 && h3 == h0 + 3 { return Some(k); }
    }
    k += 1;
  }
  None
}

pub fn spec_op(op: u8, sa: u8, sb: u8) -> u8 {
  match op {
    0 => 2 - sa,                                         // not
    1 => if sa < sb { sa } else { sb },                  // and = min
    2 => if sa > sb { sa } else { sb },                  // or = max
    _ => if sa == ABSENT { sb } else if sb == ABSENT { sa } else if sa == FULL && sb == FULL { ABSENT } else { PARTIAL },   // xor
  }
}

/// One pass over raw entries: (first ill-formed index, state of probe cell c, first index of four full siblings).
pub fn spec_scan(depth_max: u8, entries: &[u64], c: u64) -> (Option<usize>, u8, Option<usize>) {
  let mut bad: Option<usize> = None;
  let mut unpacked: Option<usize> = None;
  let mut st = ABSENT;
  let mut prev_end = 0u64;
  let mut run = 0u32;           // length of the current run of full siblings 0,1,2,.. of one parent
  let mut k = 0usize;
  while k < entries.len() {
    match spec_raw_decode(depth_max, entries[k]) {
      None => { if bad.is_none() { bad = Some(k); } run = 0; }
      Some((d, h, f)) => {
        let sh = 2 * (depth_max - d) as u32;
        let start = h << sh;
        if k > 0 && (start < prev_end || !(entries[k - 1] < entries[k])) && bad.is_none() { bad = Some(k); }
        // run of full siblings: entry k continues the run iff it is the sibling number `run` right after sibling run-1
        let continues = run > 0 && f && d >= 1 && (h & 3) == run as u64 && start == prev_end;
        if continues { run += 1; } else if f && d >= 1 && (h & 3) == 0 { run = 1; } else { run = 0; }
        if run == 4 && unpacked.is_none() { unpacked = Some(k - 3); }
        prev_end = (h + 1) << sh;
        if (c >> sh) == h { st = if f { FULL } else { PARTIAL }; }
      }
    }
    k += 1;
  }
  (bad, st, unpacked)
}

// ------------------------------------------------------------------------------------------------------------
// Reference HEALPix projection (Calabretta & Roukema 2007, eq. 1-6 in the scaling of the crate: facets of half
// diagonal 1) and point-in-cell test. Used natively (real libm) to confirm counter-examples; never by the solver.
// ------------------------------------------------------------------------------------------------------------

pub const REF_PI: f64 = std::f64::consts::PI;

/// (X, Y) with X in [0, 8), Y in [-2, 2].
pub fn ref_proj(lon: f64, lat: f64) -> (f64, f64) {
  let two_pi = 2.0 * REF_PI;
  let mut l = lon % two_pi;
  if l < 0.0 { l += two_pi; }
  if l >= two_pi { l = 0.0; }
  let xg = l * (4.0 / REF_PI);
  let z = lat.sin();
  if z.abs() <= 2.0 / 3.0 {
    (xg, 1.5 * z)
  } else {
    // sqrt(3 (1 - |z|)) = sqrt(6) sin(pi/4 - |lat|/2), without cancellation near the pole
    let t = 6.0_f64.sqrt() * (0.25 * REF_PI - 0.5 * lat.abs()).sin();
    let mut q = (xg / 2.0).floor();
    if q > 3.0 { q = 3.0; }
    let xc = 2.0 * q + 1.0;
    let x = xc + (xg - xc) * t;
    (x, if lat < 0.0 { t - 2.0 } else { 2.0 - t })
  }
}

fn ref_wrap8(d: f64) -> f64 {
  let mut d = d % 8.0;
  if d > 4.0 { d -= 8.0; }
  if d < -4.0 { d += 8.0; }
  d
}

/// L1 excess (<= 0 means inside or on the border) of the plane point (x, y) with respect to the closed diamond of centre
/// (cx, cy) and half diagonal r, minimised over the images of the cell under the identifications of the sphere: x modulo 8
/// and, inside a polar cap, the four facets glued by quarter turns about the pole. No libm call.
pub fn ref_excess_center(cx: f64, cy: f64, r: f64, x: f64, y: f64) -> f64 {
  let mut dx = x - cx;
  if dx > 4.0 { dx -= 8.0; }
  if dx > 4.0 { dx -= 8.0; }
  if dx < -4.0 { dx += 8.0; }
  if dx < -4.0 { dx += 8.0; }
  let adx = if dx < 0.0 { -dx } else { dx };
  let dy = y - cy;
  let ady = if dy < 0.0 { -dy } else { dy };
  let mut best = adx + ady - r;
  let ay = if y < 0.0 { -y } else { y };
  let acy = if cy < 0.0 { -cy } else { cy };
  // polar caps: same hemisphere, the cell reaches into the cap
  if ay > 1.0 && cy * y > 0.0 && acy + r > 1.0 {
    let tp = 2.0 - ay;
    let xm = if x < 0.0 { x + 8.0 } else if x >= 8.0 { x - 8.0 } else { x };
    let cm = if cx < 0.0 { cx + 8.0 } else if cx >= 8.0 { cx - 8.0 } else { cx };
    let mut qp = (xm * 0.5) as i64; if qp > 3 { qp = 3; }
    let up = xm - (2 * qp + 1) as f64;
    let tc = 2.0 - acy;
    let mut qc = (cm * 0.5) as i64; if qc > 3 { qc = 3; }
    let uc = cm - (2 * qc + 1) as f64;
    // image of the cell centre in the frame of the point's facet: a quarter turn about the pole per facet step
    let k = (qc - qp) & 3;
    let (ui, ti) = match k { 0 => (uc, tc), 1 => (tc, -uc), 2 => (-uc, -tc), _ => (-tc, uc) };
    let du = up - ui;
    let dt = tp - ti;
    let e = (if du < 0.0 { -du } else { du }) + (if dt < 0.0 { -dt } else { dt }) - r;
    if e < best { best = e; }
  }
  best
}

/// Same for a NESTED cell (centre from the integer plane oracle).
pub fn ref_excess(depth: u8, hash: u64, x: f64, y: f64) -> f64 {
  let n = (1u64 << depth) as f64;
  let (b, i, j) = spec_decode(depth, hash);
  let (cxi, cyi) = plane_center(depth, b, i, j);
  ref_excess_center(cxi as f64 / n, cyi as f64 / n, 1.0 / n, x, y)
}
