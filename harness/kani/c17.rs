const FOUR_OVER_PI_K: f64 = 4_f64 / std::f64::consts::PI;
const SQRT6_K: f64 = 2.44948974278317809819_f64;
const PI_OVER_FOUR_K: f64 = 0.25_f64 * std::f64::consts::PI;

/// region: 0 = north cap (lat > T), 1 = equatorial, 2 = south cap; neg: sign bit of the longitude
fn region_lat(region: u8, lat: f64) -> bool { match region { 0 => lat > C_T, 1 => lat >= -C_T && lat <= C_T, _ => lat < -C_T } }

fn k_c17_proj(region: u8, neg: bool, image: bool) {
  let lon: f64 = kani::any();
  let lat: f64 = kani::any();
  kani::assume(lon >= -25.2 && lon <= 25.2 && lat >= -C_HALF_PI && lat <= C_HALF_PI);
  kani::assume(region_lat(region, lat) && (lon.to_bits() >> 63 == 1) == neg);
  kani::cover!(lon > 7.0 || lon < -7.0, "second turn");
  kani::cover!(lat == -C_HALF_PI || lat == C_HALF_PI || lat == 0.0, "pole or equator");
  // the image clause in the polar caps (|x - centre| <= t) needs the monotonicity of the float multiplier: 25+ min, thorough tier
  if image { p_c17_proj_range(lon, lat); } else { p_c17_proj_basic(lon, lat); }
}

/// agreement with the reference formulae, from the same libm values. In the polar caps the comparison involves a second copy
/// of the product (x - centre) * t; two symbolic 53x53-bit multipliers are an equivalence-checking problem SAT does not
/// solve, so the polar clause is decided for cosines with at most 10 significant bits (every longitude, every facet).
fn k_c17_proj_ref(region: u8, neg: bool, turn: u8) {
  let lon: f64 = kani::any();
  let lat: f64 = kani::any();
  kani::assume(lon >= -25.2 && lon <= 25.2 && lat >= -C_HALF_PI && lat <= C_HALF_PI);
  kani::assume(region_lat(region, lat) && (lon.to_bits() >> 63 == 1) == neg);
  let xa = f64::from_bits(lon.to_bits() & 0x7FFF_FFFF_FFFF_FFFF) * FOUR_OVER_PI_K;
  // split by turn: |lon| * 4/pi in [8 turn, 8 turn + 8) (turn 3 also takes the rest up to 25.2 rad)
  kani::assume(xa >= 8.0 * turn as f64 && (turn >= 3 || xa < 8.0 * turn as f64 + 8.0));
  kani::cover!(xa > 8.0 * turn as f64 + 7.0, "last quarter of the turn");
  let (x, y) = hp::proj(lon, lat);
  let x8 = xa - 8.0 * ((xa * 0.125) as u64 as f64);
  let ax = f64::from_bits(x.to_bits() & 0x7FFF_FFFF_FFFF_FFFF);
  let alat = f64::from_bits(lat.to_bits() & 0x7FFF_FFFF_FFFF_FFFF);
  let tol = 1.4210854715202004e-14;   // 2^-46
  if alat <= C_T {
    // proj evaluates sin(|lat|) and copies the sign (the libm contract does not state oddness: use the same argument)
    let yr = f64::from_bits((alat.sin() * 1.5).to_bits() | (lat.to_bits() & 0x8000_0000_0000_0000));
    let mut dx = ax - x8;
    if dx > 4.0 { dx -= 8.0; }
    if dx < -4.0 { dx += 8.0; }
    assert!(dx <= tol && dx >= -tol && (y - yr) <= tol && (y - yr) >= -tol, "C17: proj differs from the reference formulae (equatorial region)");
  } else {
    let c = (alat * 0.5 + PI_OVER_FOUR_K).cos();
    let t = SQRT6_K * c;
    let q = (x8 * 0.5) as u64 as f64;
    let xm2 = x8 - 2.0 * q;
    let xr = (2.0 * q + 1.0) + (xm2 - 1.0) * t;
    let yr = if lat > 0.0 { 2.0 - t } else { t - 2.0 };
    let mut dx = ax - xr;
    if dx > 4.0 { dx -= 8.0; }
    if dx < -4.0 { dx += 8.0; }
    let narrow = (c.to_bits() & ((1u64 << 47) - 1)) == 0;     // cosines with <= 6 significant bits
    kani::cover!(narrow && xm2 != 0.0, "polar product clause reached");
    assert!((y - yr) <= tol && (y - yr) >= -tol, "C17: proj y differs from the reference formulae (polar cap)");
    if xm2 != 0.0 && narrow {
      assert!(dx <= tol && dx >= -tol && (y - yr) <= tol && (y - yr) >= -tol, "C17: proj differs from the reference formulae (polar cap)");
    }
  }
}

// ---- reference formulae, decided compositionally (the monolithic comparison needs a second copy of |lon| * 4/pi and of the
// polar product: equivalence checking of 53x53 multipliers, 25-40+ min per region) --------------------------------------------
// (a) k_c17_pm1: the REAL pm1_offset_decompose against its specification: (pm1 + offset) = xs (mod 8), pm1 in [-1, 1), offset odd in 1..=7
// (b) k_c17_proj_formula: the REAL proj with pm1_offset_decompose replaced by an arbitrary value satisfying (a): proj passes it
//     exactly |lon| * 4/pi (recorded argument, bit-identical), and x, y are the Calabretta & Roukema expressions of (pm1, offset, lat)
static mut PM1_ARG: u64 = 0;
static mut PM1_RET: (u64, u8) = (0, 0);

pub(crate) fn stub_pm1_offset_decompose(x: f64) -> crate::OffsetAndPM1 {
  let pm1: f64 = kani::any();
  let offset: u8 = kani::any();
  kani::assume(pm1 >= -1.0 && pm1 < 1.0 && (offset == 1 || offset == 3 || offset == 5 || offset == 7));
  unsafe { PM1_ARG = x.to_bits(); PM1_RET = (pm1.to_bits(), offset); }
  crate::OffsetAndPM1 { offset, pm1 }
}

fn k_c17_pm1() {
  let xs: f64 = kani::any();
  kani::assume(xs >= 0.0 && xs <= 32.1);
  kani::cover!(xs == 8.0, "xs = 8");
  kani::cover!(xs > 31.0, "fourth turn");
  let r = crate::pm1_offset_decompose(xs);
  assert!(r.offset == 1 || r.offset == 3 || r.offset == 5 || r.offset == 7, "C17: pm1_offset_decompose offset not in {1, 3, 5, 7}");
  assert!(r.pm1 >= -1.0 && r.pm1 < 1.0, "C17: pm1_offset_decompose pm1 not in [-1, 1)");
  // (pm1 + offset) = xs modulo 8: xs - (offset + 8 j) = pm1 for one j in 0..=4 (the subtraction of an integer within 1 of xs; exact for xs >= 1)
  let o = r.offset as f64;
  let ok = xs - o == r.pm1 || xs - (o + 8.0) == r.pm1 || xs - (o + 16.0) == r.pm1 || xs - (o + 24.0) == r.pm1 || xs - (o + 32.0) == r.pm1;
  assert!(ok, "C17: pm1_offset_decompose: pm1 + offset differs from the argument modulo 8");
}

/// proj decomposes exactly |lon| * 4/pi: decided for the longitudes with at most 13 significant bits (every exponent, both signs):
/// comparing with a second copy of the product is an equivalence check of two 53 x 53 multipliers, out of reach at full width
fn k_c17_proj_arg() {
  let lon: f64 = kani::any();
  kani::assume(lon >= -25.2 && lon <= 25.2);
  kani::assume(lon.to_bits() & ((1u64 << 40) - 1) == 0);
  kani::cover!(lon > 7.0, "second turn");
  kani::cover!(lon < 0.0, "negative longitude");
  let _ = hp::proj(lon, 0.25);
  let alon = f64::from_bits(lon.to_bits() & 0x7FFF_FFFF_FFFF_FFFF);
  let arg = unsafe { PM1_ARG };
  assert!(arg == (alon * FOUR_OVER_PI_K).to_bits(), "C17: proj does not decompose |lon| * 4/pi");
}

fn k_c17_proj_formula(region: u8, neg: bool) {
  let lon: f64 = kani::any();
  let lat: f64 = kani::any();
  kani::assume(lon >= -25.2 && lon <= 25.2 && lat >= -C_HALF_PI && lat <= C_HALF_PI);
  kani::assume(region_lat(region, lat) && (lon.to_bits() >> 63 == 1) == neg);
  kani::cover!(lon > 7.0 || lon < -7.0, "second turn");
  let (x, y) = hp::proj(lon, lat);
  let alon = f64::from_bits(lon.to_bits() & 0x7FFF_FFFF_FFFF_FFFF);
  let alat = f64::from_bits(lat.to_bits() & 0x7FFF_FFFF_FFFF_FFFF);
  let (arg, pm1, off) = unsafe { (PM1_ARG, f64::from_bits(PM1_RET.0), PM1_RET.1 as f64) };
  let _ = arg;   // the identity of the decomposed argument is decided by k_c17_proj_arg (a second copy of the product here makes the query an equivalence check of two multipliers)
  let ax = f64::from_bits(x.to_bits() & 0x7FFF_FFFF_FFFF_FFFF);
  let ay = f64::from_bits(y.to_bits() & 0x7FFF_FFFF_FFFF_FFFF);
  assert!((x.to_bits() >> 63 == 1) == neg || ax != ax, "C17: x does not carry the sign bit of the longitude");
  assert!((y.to_bits() >> 63) == (lat.to_bits() >> 63), "C17: y does not carry the sign bit of the latitude");
  let tol = 1.4210854715202004e-14;   // 2^-46
  if alat <= C_T {
    // cylindrical equal area: x = pm1 + offset, |y| = 3/2 sin |lat|
    let xr = pm1 + off;
    let yr = alat.sin() * 1.5;
    assert!(ax - xr <= tol && xr - ax <= tol && ay - yr <= tol && yr - ay <= tol, "C17: proj differs from the reference formulae (equatorial region)");
  } else {
    // Collignon: t = sqrt(3 (1 - sin |lat|)) = sqrt 6 cos(|lat| / 2 + pi/4), x = pm1 t + offset, |y| = 2 - t.
    // Re-computing sqrt 6 * cos and pm1 * t gives the solver two copies of each multiplier (an equivalence check it does not finish
    // at full width): the value clauses are decided for the cosines with at most 10 and the pm1 with at most 13 significant bits
    // (every exponent; also x in [offset - t', offset + t'] with t' = 2 - |y| for those pm1); for every value: |y| in [1, 2] and x on the
    // side of the column centre given by the sign of pm1.
    let c = (alat * 0.5 + PI_OVER_FOUR_K).cos();
    let narrow_c = c.to_bits() & ((1u64 << 43) - 1) == 0;
    let narrow_p = pm1.to_bits() & ((1u64 << 40) - 1) == 0;
    kani::cover!(narrow_c && narrow_p && pm1 != 0.0 && pm1 != -1.0, "polar product clause reached");
    if narrow_c {
      let t = SQRT6_K * c;
      let yr = 2.0 - t;
      assert!(ay - yr <= tol && yr - ay <= tol, "C17: proj y differs from the reference formulae (polar cap)");
      if narrow_p {
        let xr = pm1 * t + off;
        assert!(ax - xr <= tol && xr - ax <= tol, "C17: proj x differs from the reference formulae (polar cap)");
      }
    }
    let t1 = 2.0 - ay;
    assert!(ay >= 1.0 - tol && ay <= 2.0, "C17: |y| outside [1, 2] in a polar cap");
    // (for every pm1 this bound is the monotonicity of the float multiplier, which the SAT solver does not finish at full width:
    // it is the image clause of the thorough harnesses c17_proj_{npc,spc}_*)
    if narrow_p { assert!(ax >= off - t1 - tol && ax <= off + t1 + tol, "C17: proj x outside [offset - t, offset + t] (polar cap)"); }
    assert!(!(pm1 >= 0.0) || ax >= off, "C17: proj x on the wrong side of the column centre (polar cap)");
    assert!(!(pm1 <= 0.0) || ax <= off, "C17: proj x on the wrong side of the column centre (polar cap)");
  }
}

fn k_c17_unproj() {
  let x: f64 = kani::any();
  let y: f64 = kani::any();
  kani::assume(x >= -8.0 && x <= 8.0 && y >= -2.0 && y <= 2.0);
  kani::cover!(y > 1.9999999999999 && x < 0.0, "next to the north pole, negative x");
  kani::cover!(y == -1.0, "south transition");
  p_c17_unproj_range(x, y);
}

/// row: 0 = y > 1, 1 = 0 <= y <= 1, 2 = -1 <= y < 0, 3 = y < -1; quarter q: x (made positive) in [2q, 2q+2)
fn k_c17_base_cell(row: u8, q: u8) {
  let x: f64 = kani::any();
  let y: f64 = kani::any();
  kani::assume(x >= -8.0 && x < 8.0 && y >= -2.0 && y <= 2.0);
  kani::assume(match row { 0 => y > 1.0, 1 => y >= 0.0 && y <= 1.0, 2 => y < 0.0 && y >= -1.0, _ => y < -1.0 });
  let xa = if x < 0.0 { x + 8.0 } else { x };
  kani::assume(xa >= 2.0 * q as f64 && xa < 2.0 * q as f64 + 2.0);
  kani::cover!(x < 0.0, "negative x");
  kani::cover!(xa == 2.0 * q as f64 + 1.0, "facet centre line");
  p_c17_base_cell(x, y);
}

fn k_c17_guard(which: u8) {
  let a: f64 = kani::any();
  let b: f64 = kani::any();
  if which == 0 { kani::assume(!(b >= -C_HALF_PI && b <= C_HALF_PI)); let _ = hp::proj(a, b); }
  else { kani::assume(!(b >= -2.0 && b <= 2.0)); let _ = hp::unproj(a, b); }
  kani::cover!(true, "guard bypassed");
}
