use hp::nested::Layer;

const FOUR_OVER_PI_K: f64 = 4_f64 / std::f64::consts::PI;
const SQRT6_K: f64 = 2.44948974278317809819_f64;
const PI_OVER_FOUR_K: f64 = 0.25_f64 * std::f64::consts::PI;
const TWO_P: f64 = 2.0000000037252903;   // 2 + 2^-28

fn lonlat() -> (f64, f64) {
  let lon: f64 = kani::any();
  let lat: f64 = kani::any();
  kani::assume(lon >= -25.2 && lon <= 25.2);                    // about [-8 pi, 8 pi]
  kani::assume(lat >= -C_HALF_PI && lat <= C_HALF_PI);
  (lon, lat)
}

/// Reference position of the longitude: (quarter 0..=3, u in [-1, 1]) with global X = 2 quarter + 1 + u. Negative longitudes are
/// mirrored on (quarter, u) directly: forming 8 - x would round to 8 for tiny x and change the quarter.
fn ref_quarter_u(lon: f64) -> (u64, f64) {
  let x = f64::from_bits(lon.to_bits() & 0x7FFF_FFFF_FFFF_FFFF) * FOUR_OVER_PI_K;        // in [0, 32.1]
  let x8 = x - 8.0 * ((x * 0.125) as u64 as f64);                                        // x mod 8, exact (no float division: a divider circuit is expensive)
  let of = (x8 as u64) | 1;                                                              // odd floor of x mod 8: 1, 3, 5 or 7 (x8 = 8 cannot happen: x8 < 8)
  let q8 = of >> 1;                                                                      // quarter 0..=3
  let up = x8 - of as f64;                                                               // exact, in [-1, 1)
  if lon.to_bits() >> 63 == 0 { (q8, up) } else { (3 - q8, -up) }
}

/// not -0.0 and not a negative subnormal (what the exponent-bit scaling of hash_v2 needs at depth 0 in the dev profile)
fn sign_ok(v: f64) -> bool { !(v.to_bits() >> 63 == 1 && v > -2.2250738585072014e-308) }

fn guarantee_r(d0h: u8, l: f64, h: f64) -> bool {
  d0h < 12 && l.is_finite() && h.is_finite() && (h + l) < TWO_P && (h - l) < TWO_P && sign_ok(h + l) && sign_ok(h - l)
}

/// End to end through the public API, real hash code, libm contracts: total + in range.
fn k_c01_e2e(depth: u8) {
  let (lon, lat) = lonlat();
  kani::cover!(lat > C_T && lon > 7.0, "north cap, second turn");
  kani::cover!(lat < -C_T && lon < 0.0, "south cap, negative longitude");
  kani::cover!(lat == C_T, "transition latitude");
  kani::cover!(lat == C_HALF_PI, "north pole");
  p_c01_range(depth, lon, lat);
}

/// Lemma R on the real producer: base cell and in-base-cell coordinates of every position are in the range the scaling step relies on.
/// region: 0 = north cap (lat > T), 1 = equatorial (|lat| <= T), 2 = south cap; neg: sign bit of lon
fn k_c01_r(region: u8, neg: bool, lite: bool) {
  let (lon, lat) = lonlat();
  kani::assume((lon.to_bits() >> 63 == 1) == neg);
  kani::assume(match region { 0 => lat > C_T, 1 => lat >= -C_T && lat <= C_T, _ => lat < -C_T });
  let (d0h, l, h) = Layer::d0h_lh_in_d0c(lon, lat);
  kani::cover!(lon > 7.0 || lon < -7.0, "second turn");
  kani::cover!(lon == 0.0, "zero longitude");
  if lite {
    // everything but the sign clause (no -0.0 / negative subnormal), which is only needed by the depth-0 scaling in the dev profile
    assert!(d0h < 12 && l.is_finite() && h.is_finite() && (h + l) < TWO_P && (h - l) < TWO_P, "C01-R: base cell / in-cell coordinates out of the range the scaling step relies on");
  } else {
    assert!(guarantee_r(d0h, l, h), "C01-R: base cell / in-cell coordinates out of the range the scaling step relies on");
  }
}

/// Lemma P on the real producer: (base cell, l, h) is the reference projection of the position, from the same libm values.
/// Polar clause: decided for cosines with at most 10 significant bits (see kani/c17.rs for the reason).
/// region: 0 = north cap, 1 = equatorial, 2 = south cap; neg: sign bit of lon;
/// bits: polar caps only: number of significant bits of the cosine for which the product clause is decided (0 = product clause off)
/// quarter: floor((|lon| 4/pi mod 8) / 2) in 0..=3; turn: 0 = |lon| 4/pi < 8 (first turn), 1 = later turns
fn k_c01_p(region: u8, neg: bool, bits: u8, quarter: u8, turn: u8) {
  let (lon, lat) = lonlat();
  kani::assume((lon.to_bits() >> 63 == 1) == neg);
  kani::assume(match region { 0 => lat > C_T, 1 => lat >= -C_T && lat <= C_T, _ => lat < -C_T });
  {
    let xa = f64::from_bits(lon.to_bits() & 0x7FFF_FFFF_FFFF_FFFF) * FOUR_OVER_PI_K;
    kani::assume((xa < 8.0) == (turn == 0));
    let xm = xa - 8.0 * ((xa * 0.125) as u64 as f64);
    kani::assume(xm >= 2.0 * quarter as f64 && xm < 2.0 * quarter as f64 + 2.0);
  }
  let (d0h, l, h) = Layer::d0h_lh_in_d0c(lon, lat);
  kani::assume(d0h < 12);                                                                   // decided by lemma R
  let (rq, ru) = ref_quarter_u(lon);
  let xg = (2 * rq + 1) as f64 + ru;                                                       // global X in [0, 8]
  let xc = BASE_CX[d0h as usize] as f64 + l;
  let yc = BASE_CY[d0h as usize] as f64 + h - 1.0;
  let tol = 1.4210854715202004e-14;   // 2^-46
  let alat = f64::from_bits(lat.to_bits() & 0x7FFF_FFFF_FFFF_FFFF);
  kani::cover!(true, "domain non empty");
  if region == 1 {
    let yr = lat.sin() * 1.5;
    let mut dx = xc - xg;
    if dx > 4.0 { dx -= 8.0; }
    if dx < -4.0 { dx += 8.0; }
    kani::cover!(d0h >= 8, "equatorial point in a south polar base cell");
    kani::cover!(d0h < 4, "equatorial point in a north polar base cell");
    assert!(dx <= tol && dx >= -tol && (yc - yr) <= tol && (yc - yr) >= -tol, "C01-P: (base cell, l, h) is not the reference projection of the position (equatorial region)");
  } else {
    let c = (alat * 0.5 + PI_OVER_FOUR_K).cos();
    let t = SQRT6_K * c;
    let q = rq as f64;                          // facet 0..3
    let xm2 = ru + 1.0;                         // in [0, 2]
    let yr = if region == 0 { 2.0 - t } else { t - 2.0 };
    assert!((yc - yr) <= tol && (yc - yr) >= -tol, "C01-P: h is not the reference projection of the latitude (polar cap)");
    if xm2 != 0.0 && xm2 != 2.0 {               // positions exactly on a facet seam are decided by the native oracle only
      // base cell = the facet of the longitude; l has the side of the longitude in its facet and stays inside the facet
      assert!(d0h as f64 == q + if region == 0 { 0.0 } else { 8.0 }, "C01-P: wrong polar base cell for the longitude");
      let al = if l < 0.0 { -l } else { l };
      let dc = if xm2 < 1.0 { 1.0 - xm2 } else { xm2 - 1.0 };
      assert!(al <= tol || dc <= tol || (l < 0.0) == (xm2 < 1.0), "C01-P: l is on the wrong side of the facet centre (polar cap)");
      if bits == 255 {
        // |l| = |x t| <= t needs the monotonicity of the float multiplier: 20+ min, thorough tier
        assert!(al <= t + tol, "C01-P: l is outside the facet (polar cap)");
      } else if bits > 0 {
        // exact product clause, for cosines with at most `bits` significant bits (two symbolic 53x53 multipliers are out of reach)
        let narrow = (c.to_bits() & ((1u64 << (53 - bits as u32)) - 1)) == 0;
        kani::cover!(narrow, "product clause reached");
        if narrow {
          let xr = (2.0 * q + 1.0) + (xm2 - 1.0) * t;
          let dx = xc - xr;
          assert!(dx <= tol && dx >= -tol, "C01-P: l is not the reference projection of the longitude (polar cap)");
        }
      }
    }
  }
}

/// Coarse placement (quick tier): the reference projection of the position lies in (or within 2^-20 of) the closed diamond of the
/// base cell returned by the real Layer::d0h_lh_in_d0c. Independent of the in-cell coordinates (decided by lemma P, thorough tier).
/// class (equatorial region only): 0 = north polar base cell returned, 1 = south polar, 2 = equatorial; 255 = any
/// first_turn: restrict to |lon| 4/pi < 8 (quick tier for the equatorial region; the reduction modulo 8 makes the general case slow)
fn k_c01_b(region: u8, neg: bool, class: u8, first_turn: bool) {
  let (lon, lat) = lonlat();
  if first_turn { kani::assume(f64::from_bits(lon.to_bits() & 0x7FFF_FFFF_FFFF_FFFF) * FOUR_OVER_PI_K < 8.0); }
  kani::assume((lon.to_bits() >> 63 == 1) == neg);
  kani::assume(match region { 0 => lat > C_T, 1 => lat >= -C_T && lat <= C_T, _ => lat < -C_T });
  let (d0h, _l, _h) = Layer::d0h_lh_in_d0c(lon, lat);
  kani::assume(d0h < 12);                                                                   // decided by lemma R
  kani::assume(match class { 0 => d0h < 4, 1 => d0h >= 8, 2 => d0h >= 4 && d0h < 8, _ => true });
  let (rq, ru) = ref_quarter_u(lon);
  kani::cover!(first_turn || lon > 7.0 || lon < -7.0, "second turn");
  if region == 1 {
    let yr = lat.sin() * 1.5;
    // the quarter square [2q, 2q+2] x [-1, 1] is cut by its diagonals into the north polar cell q, the south polar cell 8+q and the
    // two equatorial cells centred at x = 2q (west) and x = 2q+2 (east); containment in a triangle = two comparisons
    let q = rq;
    let u = ru;
    let au = if u < 0.0 { -u } else { u };
    let ay = if yr < 0.0 { -yr } else { yr };
    let tol = 9.5367431640625e-07;   // 2^-20
    kani::cover!(true, "class non empty");
    let ok = if d0h < 4 { d0h as u64 == q && au <= yr + tol }
             else if d0h >= 8 { d0h as u64 - 8 == q && au <= -yr + tol }
             else if d0h as u64 - 4 == q { u <= -ay + tol }
             else { d0h as u64 - 4 == ((q + 1) & 3) && u >= ay - tol };
    assert!(ok, "C01-B: the position is not in the base cell returned (equatorial region)");
  } else {
    let q = rq as f64;
    let xm2 = ru + 1.0;
    if xm2 != 0.0 && xm2 != 2.0 {
      assert!(d0h as f64 == q + if region == 0 { 0.0 } else { 8.0 }, "C01-B: wrong polar base cell for the longitude");
    }
  }
}

// ---- cut at the depth-independent interface Layer::d0h_lh_in_d0c (DESIGN.md 3.3) ----
static mut CUT_DONE: bool = false;
static mut CUT_VAL: (u8, u64, u64) = (0, 0, 0);
pub(crate) fn stub_d0h_lh(_lon: f64, _lat: f64) -> (u8, f64, f64) {
  unsafe {
    if CUT_DONE { return (CUT_VAL.0, f64::from_bits(CUT_VAL.1), f64::from_bits(CUT_VAL.2)); }
    let d0h: u8 = kani::any();
    let l: f64 = kani::any();
    let h: f64 = kani::any();
    kani::assume(guarantee_r(d0h, l, h));
    CUT_DONE = true;
    CUT_VAL = (d0h, l.to_bits(), h.to_bits());
    (d0h, l, h)
  }
}

/// Scaling step of hash_v2 on an arbitrary interface value satisfying R, symbolic depth: exact containment in the scaled frame.
fn k_c01_s(dmin: u8, dmax: u8) {
  let depth: u8 = kani::any();
  kani::assume(depth >= dmin && depth <= dmax);
  let hash = Layer::new(depth).hash(0.0, 0.0);
  let (d0h, l, h) = stub_d0h_lh(0.0, 0.0);
  assert!(hash < spec_n_hash(depth), "C01-S: hash out of range");
  let (b, i, j) = spec_decode(depth, hash);
  assert!(b == d0h, "C01-S: base cell of the hash differs from the base cell of the projection");
  let n = (1u64 << depth) as f64;
  let half_n = 0.5 * n;                         // power of two: the products below are exact
  let si = (h + l) * half_n;
  let sj = (h - l) * half_n;
  let ei = if si >= n { (n as u32) - 1 } else if si >= 0.0 { si as u32 } else { 0 };
  let ej = if sj >= n { (n as u32) - 1 } else if sj >= 0.0 { sj as u32 } else { 0 };
  kani::cover!(si >= n, "clamp i == nside");
  kani::cover!(sj < 0.0, "negative rounding noise");
  assert!(i == ei && j == ej, "C01-S: (i, j) is not the floor of the scaled in-cell coordinates (clamped to the cell)");
}

/// C02: adjacent depths on the same interface value.
fn k_c02_prefix(dmin: u8, dmax: u8) {
  let depth: u8 = kani::any();
  kani::assume(depth >= dmin && depth <= dmax && depth < 29);
  let h0 = Layer::new(depth).hash(0.0, 0.0);
  let h1 = Layer::new(depth + 1).hash(0.0, 0.0);
  kani::cover!(true, "reached");
  assert!(h0 < spec_n_hash(depth) && h1 < spec_n_hash(depth + 1), "C02: hash out of range");
  assert!(h0 == h1 >> 2, "C02: the depth-d cell is not the parent of the depth-(d+1) cell of the same position");
}

fn k_c01_guard(depth: u8) {
  let lon: f64 = kani::any();
  let lat: f64 = kani::any();
  kani::assume(!(lat >= -C_HALF_PI && lat <= C_HALF_PI));
  kani::cover!(lat != lat, "NaN latitude");
  let _ = hp::nested::hash(depth, lon, lat);
  kani::cover!(true, "guard bypassed");
}
