#!/usr/bin/env python3
"""Prints a markdown table: per property, number of harnesses per tier and the bounds text (from harness/registry.py)."""
import sys
sys.path.insert(0, '/verif/harness')
import registry as R
print('| property | quick | thorough adds | extended adds | quick bounds |')
print('|---|---|---|---|---|')
for pid, p in sorted(R.PROPS.items()):
    hs = p['harnesses']
    q = len([h for h in hs if 'quick' in h['tiers']])
    t = len([h for h in hs if h['tiers'] == R.T])
    x = len([h for h in hs if h['tiers'] == R.X])
    b = p.get('bounds', {})
    print('| %s | %d | %d | %d | %s |' % (pid, q, t, x, (b.get('quick') or b.get('all') or '').replace('|', '/')))
