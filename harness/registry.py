"""Registry of properties and harnesses. One entry of PROPS per claimed property.

A harness = one bounded-model-checking query:
  name     wrapper fn generated into the injected module (also the evidence / log key)
  call     body of the wrapper: a call of a k_* function of harness/kani/<prop>.rs
  tiers    subset of ('quick', 'thorough')
  timeout  seconds (time-out => the harness is reported UNDECIDED, never counted as held)
  mem_gb   address-space cap of the cbmc process
  unwind   #[kani::unwind(n)] (unwinding assertions are always on)
  stubs    [(original, replacement)] -> #[kani::stub]
  inputs   [(name, type)]: the FIRST kani::any() calls of the harness, in order = public inputs used for native replay
  replay   name of the native replay function (replay/src/main.rs dispatch)
  covers   cover!() descriptions that must be SATISFIED (vacuity witnesses)
  never    cover!() descriptions that must NOT be satisfiable (guard harnesses)
"""

Q = ('quick', 'thorough')
T = ('thorough',)
X = ('extended',)


def H(name, call, tiers=Q, timeout=600, mem_gb=8, **kw):
    d = dict(name=name, call=call, tiers=tiers, timeout=timeout, mem_gb=mem_gb)
    d.update(kw)
    return d


PROPS = {}

# ------------------------------------------------------------------------------------------- C18
_c18 = []
for cls, lo, hi in (('empty', 0, 0), ('small', 1, 8), ('mediu', 9, 16), ('large', 17, 29)):
    _c18.append(H('c18_ij2h_' + cls, 'k_c18_ij2h(%d, %d);' % (lo, hi), unwind=33, timeout=300,
                  inputs=[('d', 'u8'), ('i', 'u32'), ('j', 'u32')], replay='c18_ij2h',
                  covers=['top i, deepest depth of the class', 'shallowest depth of the class'],
                  domain='depth symbolic in %d..=%d, all (i, j) < 2^depth' % (lo, hi)))
    _c18.append(H('c18_h2ij_' + cls, 'k_c18_h2ij(%d, %d);' % (lo, hi), unwind=33, timeout=300,
                  inputs=[('d', 'u8'), ('h', 'u64')], replay='c18_h2ij',
                  covers=['largest hash of the class'],
                  domain='depth symbolic in %d..=%d, all h < 4^depth (decode-first direction)' % (lo, hi)))
_c18 += [
    H('c18_xor_full', 'k_c18_xor();', unwind=33, timeout=300, inputs=[('i', 'u32'), ('j', 'u32')], replay='c18_xor',
      covers=['full width'], domain='public LargeZOCxor, all (i, j) in u32 x u32'),
    H('c18_lut_full', 'k_c18_lut_full();', unwind=33, timeout=300, inputs=[('i', 'u32'), ('j', 'u32')], replay='c18_lut_full',
      covers=['full width'], domain='public LargeZOC (LUT), all (i, j) in u32 x u32'),
    H('c18_uniq', 'k_c18_uniq();', timeout=300, inputs=[('d', 'u8'), ('h', 'u64')], replay='c18_uniq',
      covers=['last cell of depth 29', 'last base cell'], domain='depth symbolic 0..=29, all hash < 12*4^depth'),
    H('c18_uniq_inj', 'k_c18_uniq_inj();', timeout=300,
      inputs=[('d1', 'u8'), ('h1', 'u64'), ('d2', 'u8'), ('h2', 'u64')], replay='c18_uniq_inj',
      covers=['adjacent depths'], domain='two symbolic valid (depth, hash) pairs'),
    H('c18_uniq_guard', 'k_c18_uniq_guard(false);', timeout=120, should_panic=True,
      inputs=[('d', 'u8'), ('h', 'u64')], replay='c18_uniq_guard', replay_const={'ivoa': 0},
      never=['guard bypassed'], domain='depth symbolic > 29, all hash'),
    H('c18_uniq_ivoa_guard', 'k_c18_uniq_guard(true);', timeout=120, should_panic=True,
      inputs=[('d', 'u8'), ('h', 'u64')], replay='c18_uniq_guard', replay_const={'ivoa': 1},
      never=['guard bypassed'], domain='depth symbolic > 29, all hash'),
]
for _d in range(30):
    _c18.append(H('c18_uniq_layer_d%d' % _d, 'k_c18_uniq_layer(%d);' % _d, tiers=Q if _d in (0, 29) else T, timeout=300,
                  inputs=[('h', 'u64')], replay='c18_uniq_layer', replay_const={'d': _d}, covers=['last cell'],
                  domain='Layer of depth %d, all hash < 12*4^depth' % _d))
PROPS['C18'] = dict(
    inject=[dict(host='src/nested/mod.rs', mod='verif_c18', parts=['props/c18.rs', 'kani/c18.rs'])],
    harnesses=_c18,
    functions=['nested::zordercurve::get_zoc', 'EmptyZOC/SmallZOC/MediuZOC/LargeZOC::{ij2h,i02h,oj2h,h2ij,h2i0,ij2i,ij2j}',
               'LargeZOCxor::*', 'nested::{to_uniq,to_uniq_ivoa,from_uniq,from_uniq_ivoa}', 'Layer::{to_uniq,to_uniq_ivoa}'],
    bounds={'all': 'full machine width: every depth 0..=29 (symbolic inside each z-order class), every (i, j) < 2^depth, '
                   'every hash < 4^depth; oracle bit loop unwound 32 times (unwind 33, unwinding assertions on)'},
    outside='the BMI2 (pdep/pext) implementations: compiled only with target-feature=+bmi2, which neither the default build '
            'nor the test-suite uses; Kani has no model of the intrinsics',
    assumptions=['little-endian x86_64 target (as compiled by Kani); default build, no BMI2'],
)

# ------------------------------------------------------------------------------------------- C16
_c16 = [
    H('c16_bsd', 'k_c16_bsd();', timeout=300, inputs=[('r', 'f64')], replay='c16_bsd',
      covers=['r exactly a table entry', 'negative r', 'NaN', 'tiny r'], domain='all 2^64 doubles r (incl. NaN, infinities, negatives)'),
    H('c16_monotone', 'k_c16_monotone();', timeout=120, inputs=[('k', 'u8')], replay='c16_monotone',
      domain='all 29 adjacent table pairs'),
    H('c16_guard', 'k_c16_guard();', timeout=120, should_panic=True, inputs=[('r', 'f64')], replay='c16_guard',
      covers=['NaN refused'], never=['guard bypassed'], domain='all doubles refused by has_best_starting_depth'),
]
for _d in range(30):
    _c16.append(H('c16_depth_%d' % _d, 'k_c16_each_depth(%d);' % _d, tiers=Q if _d in (0, 1, 15, 28, 29) else T, timeout=120,
                  inputs=[('r', 'f64')], replay='c16_bsd', covers=['interval non empty'],
                  domain='all doubles in [limit(%d+1), limit(%d))' % (_d, _d)))
PROPS['C16'] = dict(
    inject=[dict(host='src/lib.rs', mod='verif_c16', parts=['props/c16.rs', 'kani/c16.rs'])],
    harnesses=_c16,
    functions=['has_best_starting_depth', 'best_starting_depth', 'SMALLER_EDGE2OPEDGE_DIST'],
    bounds={'all': 'every IEEE double r; no loops'},
    outside='NOT decided: that largest_center_to_vertex_distance* dominate the true distances and that a cone of radius r fits in 9 cells '
            'at the returned depth (true spherical trigonometry, f64 %% f64: outside the reach of a bit-precise solver, DESIGN.md 5 C16)',
    assumptions=['the documented 30-entry table (copied into the oracle) is the specification of the limits'],
)

# ------------------------------------------------------------------------------------------- C04
_c04 = []
for _d in range(30):
    tiers = Q if _d <= 3 else T
    _c04.append(H('c04_pair_d%d' % _d, 'k_c04_pair(%d);' % _d, tiers=tiers, timeout=1500 if _d <= 3 else 3000, mem_gb=10,
                  unwind=max(9, _d + 1), inputs=[('a', 'u64'), ('c', 'u64')], replay='c04_pair', replay_const={'depth': _d},
                  covers=['cell lacking its E neighbour', 'cell touching the north pole', 'edge neighbour in another base cell'],
                  domain='depth %d: all cells a x all other cells c (%d^2 pairs)' % (_d, 12 * 4 ** _d)))
for _d in (0, 1, 29):
    for single in (0, 1):
        _c04.append(H('c04_guard_d%d_%s' % (_d, 'one' if single else 'all'), 'k_c04_guard(%d, %s);' % (_d, 'true' if single else 'false'),
                      tiers=Q, timeout=300, should_panic=True, inputs=[('a', 'u64'), ('k', 'u8')], replay='c04_guard',
                      replay_const={'depth': _d, 'single': single}, never=['guard bypassed'],
                      domain='depth %d, all cell numbers >= 12*4^depth' % _d))
PROPS['C04'] = dict(
    inject=[dict(host='src/nested/mod.rs', mod='verif_c04', parts=['props/c04.rs', 'kani/c04.rs'])],
    harnesses=_c04,
    functions=['Layer::neighbours', 'Layer::neighbour', 'Layer::inner_cell_neighbours', 'Layer::edge_cell_neighbours',
               'Layer::neighbour_from_parts', 'Layer::neighbour_from_shifted_coos', 'Layer::{ncp,eqr,spc}_neighbour',
               'MainWind::{from_offsets,offset_se,offset_sw,index}', 'MainWindMap'],
    bounds={'quick': 'depths 0,1,2,3: every cell a and every other cell c of the depth (both symbolic, full range); guards at depths 0,1,29',
            'thorough': 'adds depths 4, 8 (depths 16, 17, 24 were undecided after 40 min each: tier extended with the other depths; a harness that exceeds its cap is reported UNDECIDED, never counted as held)'},
    outside='depths not listed for the tier',
    assumptions=['plane oracle: integer vertex coordinates in units of 1/nside with the polar-cap identifications (harness/common/oracles.rs)'],
)

# ------------------------------------------------------------------------------------------- C10
_c10 = []
_RN = ['npc', 'eqr', 'spc']
for _d in range(30):
    for reg in (0, 1, 2):
        polar = reg != 1
        if polar:
            tiers = Q if _d <= 1 else (T if _d <= 8 else ())   # depth 2 polar harnesses take 9-11 min: thorough
        else:
            tiers = Q if _d in (0, 1, 2, 29) else T
        if tiers:
            to = 1200 if 'quick' in tiers else 3600
            # equatorial region at depth 29: 10+ min in one piece, cut in three
            for part in ((0, 1, 2) if (_d == 29 and reg == 1) else (255,)):
                _c10.append(H('c10_ring_%s_d%d%s' % (_RN[reg], _d, '' if part == 255 else '_p%d' % part),
                              ('k_c10_ring(%d, %d);' % (_d, reg)) if part == 255 else ('k_c10_ring_part(%d, %d, %d);' % (_d, reg, part)), tiers=tiers,
                              timeout=to, mem_gb=4, unwind=max(4, _d + 1),
                              inputs=[('r', 'u64')], replay='c10_ring', replay_const={'depth': _d}, covers=['region non empty'],
                              domain='depth %d, every RING index of the %s region (and its successor)%s' % (_d, _RN[reg], '' if part == 255 else ', third %d of the index range' % part)))
            _c10.append(H('c10_nested_%s_d%d' % (_RN[reg], _d), 'k_c10_nested(%d, %d);' % (_d, reg), tiers=tiers,
                          timeout=to, mem_gb=4, unwind=max(4, _d + 1),
                          inputs=[('h', 'u64')], replay='c10_nested', replay_const={'depth': _d}, covers=['region non empty'],
                          domain='depth %d, every NESTED cell of base cells %d..%d' % (_d, 4 * reg, 4 * reg + 3)))
            _c10.append(H('c10_centres_%s_d%d' % (_RN[reg], _d), 'k_c10_centres(%d, %d);' % (_d, reg), tiers=tiers,
                          timeout=to, mem_gb=4, unwind=max(4, _d + 1),
                          inputs=[('r', 'u64')], replay='c10_centres', replay_const={'depth': _d}, covers=['region non empty'],
                          domain='depth %d, every RING index of the %s region' % (_d, _RN[reg])))
# deep polar caps: ring ends (first / last T cells) of windows of W consecutive rings (ring index counted from the pole)
_C10_W, _C10_T = 64, 4
for _d in (26, 29):
    n = 1 << _d
    for k0 in (n - _C10_W, 47453132 - _C10_W // 2, (n // 4) * 3):
        if 0 < k0 < n:
            for south in (0, 1):
                _c10.append(H('c10_ringends_%s_d%d_k%d' % ('s' if south else 'n', _d, k0),
                              'k_c10_ringends(%d, %d, %d, %d, %s);' % (_d, k0, _C10_W, _C10_T, 'true' if south else 'false'),
                              tiers=T, timeout=3600, mem_gb=6, unwind=max(4, _d + 1),
                              inputs=[('r', 'u64')], replay='c10_ring', replay_const={'depth': _d},
                              covers=['last cell of the last ring of the window', 'first cell of the first ring of the window'],
                              domain='depth %d, %s polar cap: first and last %d cells of each of the rings %d..%d from the pole'
                                     % (_d, 'south' if south else 'north', _C10_T, k0, k0 + _C10_W - 1)))
PROPS['C10'] = dict(
    inject=[dict(host='src/nested/mod.rs', mod='verif_c10', parts=['props/c10.rs', 'kani/c10.rs'])],
    harnesses=_c10,
    functions=['Layer::to_ring', 'Layer::from_ring', 'Layer::decode_hash', 'Layer::build_hash_from_parts', 'ring::triangular_number_x4',
               'ring::polar_cap_ring_index', 'ring::center_of_projected_cell', 'Layer::center_of_projected_cell'],
    bounds={'quick': 'polar caps: every index, depths 0..2; equatorial region: every index, depths 0,1,2,29 (the successor of the last equatorial '
                     'index is the first south-polar index, i.e. the mirror image of the last cell of the last polar ring)',
            'thorough': 'polar caps: every index at depths 0..3, 5, 8, and at depths 26 and 29 the first / last 4 cells of each ring in windows of 64 rings (pole end and transition latitude); equatorial region: every index at the quick depths + 3, 5, 8, 16, 17, 28 (other depths / windows: tier extended)'},
    outside='interior cells of polar rings at depths above 8 (quick: above 2); the full-width ring-index lemma did not finish (DESIGN.md 10.2)',
    assumptions=['f64::sqrt is the IEEE correctly rounded square root (CBMC model, exact)'],
)

# ------------------------------------------------------------------------------------------- C07 / C08 (BMOC operators)
_OPN = {0: 'not', 1: 'and', 2: 'or', 3: 'xor'}


def _ops_inputs(prefix):
    r = []
    for k in range(4):
        r += [('%s_d%d' % (prefix, k), 'u8'), ('%s_h%d' % (prefix, k), 'u64'), ('%s_f%d' % (prefix, k), 'bool')]
    return r


# per-loop unwinding bounds, keyed 'function#k' (k-th loop of the function in source order, resolved to CBMC loop ids from
# the goto binary at run time). Derived from the code for operands of at most na / nb entries and depth_max <= dm.
# Loops not listed fall under the (small) global unwind of the harness; unwinding assertions are on, so a bound that is too
# small makes the harness inconclusive, never a pass.
def _bmoc_out_max(na, nb, dm, op):
    if op == 0:
        return 11 + (3 * dm + 1) * max(na, 0) + 1
    if op == 1:
        return max(na + nb - 1, 0)
    return na + nb + 3 * dm * max(min(na, nb), 0)   # each low-res/high-res overlap adds at most 3 cells per level


def _bmoc_unwindset(na, nb, dm, op):
    B = 'nested::bmoc::'
    L = _bmoc_out_max(na, nb, dm, op)
    u = {'verif_common::Ops::valid#0': 6, 'verif_common::Ops::all_full#0': 6, 'verif_common::Ops::packed#0': 6,
         'verif_common::Ops::state#0': 6, 'verif_common::spec_scan#0': L + 1}
    if op == 0:
        u.update({B + 'BMOC::not#0': 13, B + 'BMOC::not#1': max(na, 1), B + 'BMOC::not#2': 13,
                  B + 'go_down#0': dm + 2, B + 'go_down#1': 13, B + 'go_up#0': dm + 1, B + 'go_up#1': 4})
    elif op == 1:
        u.update({B + 'BMOC::and#0': na + nb + 1})
    else:
        f = 'or' if op == 2 else 'xor'
        u.update({B + 'BMOC::%s#0' % f: na + nb + 1, B + 'BMOC::%s#1' % f: na + 1, B + 'BMOC::%s#2' % f: nb + 1,
                  B + 'BMOC::not_in_cell_4_%s#0' % f: max(na, nb) + 1,
                  B + 'consume_while_overlapped#0': max(na, nb) + 1, B + 'consume_while_overlapped_and_partial#0': max(na, nb) + 1,
                  B + 'go_down#0': dm + 2, B + 'go_down#1': 4, B + 'go_up#0': dm + 1, B + 'go_up#1': 4,
                  B + 'BMOCBuilderUnsafe::pack#0': dm + 2, B + 'BMOCBuilderUnsafe::pack#1': L + 1, B + 'BMOCBuilderUnsafe::pack#2': L + 1})
    return u


def _bmoc_stubs(mod):
    B = 'crate::nested::bmoc::'
    return [(B + 'BMOCBuilderUnsafe::new', B + mod + '::stub_builder_new'),
            (B + 'BMOCBuilderUnsafe::push', B + mod + '::stub_builder_push'),
            (B + 'BMOCBuilderUnsafe::push_raw_unsafe', B + mod + '::stub_builder_push_raw')]


def _bmoc_cut_pack(mod):
    B = 'crate::nested::bmoc::'
    return [(B + 'BMOCBuilderUnsafe::to_bmoc_packing', B + mod + '::stub_to_bmoc_packing')]


def _bmoc_h(pid, mode, op, na, nb, dma, dmb, tiers, timeout=1800, mem_gb=12, unwind=3):
    name = '%s_%s_%d_%d_dm%d%d' % (pid.lower(), _OPN[op], na, nb, dma, dmb)
    dm = max(dma, dmb) if op else dma
    return H(name, 'k_bmoc_op(%d, %d, %d, %d, %d, %d);' % (op, mode, na, nb, dma, dmb), tiers=tiers, timeout=timeout, mem_gb=mem_gb,
             unwind=unwind, unwindset=_bmoc_unwindset(na, nb, dm, op),
             stubs=_bmoc_stubs('verif_' + pid.lower()) + (_bmoc_cut_pack('verif_' + pid.lower()) if op >= 2 else []),
             inputs=_ops_inputs('a') + _ops_inputs('b') + [('c', 'u64')], replay='bmoc_op', replay_search=('bmoc_op_search' if na + nb <= 3 else None),
             replay_const={'op': op, 'mode': mode, 'na': na, 'nb': nb, 'a_dm': dma, 'b_dm': dmb},
             covers=['operands exist'],
             domain='%s: operands of exactly %d and %d entries (symbolic depth/hash/flag, valid%s), depth_max %d and %d, symbolic probe cell'
                    % (_OPN[op], na, nb, ', all full, packed' if mode else '', dma, dmb))


def _pack_h(pid, n, dm, tiers, timeout=1800, mem_gb=12):
    B = 'nested::bmoc::'
    us = {'verif_common::Ops::valid#0': 6, 'verif_common::Ops::packed#0': 6, 'verif_common::Ops::state#0': 6,
          'verif_common::spec_scan#0': n + 1, B + 'verif_%s::p_pack#0' % pid.lower(): n + 1,
          B + 'BMOCBuilderUnsafe::pack#0': dm + 2, B + 'BMOCBuilderUnsafe::pack#1': n + 1, B + 'BMOCBuilderUnsafe::pack#2': n + 1}
    return H('%s_pack_%d_dm%d' % (pid.lower(), n, dm), 'k_pack(%d, %d);' % (n, dm), tiers=tiers, timeout=timeout, mem_gb=mem_gb,
             unwind=3, unwindset=us, stubs=_bmoc_stubs('verif_' + pid.lower()),
             inputs=_ops_inputs('a') + [('c', 'u64')], replay='bmoc_pack', replay_search=('bmoc_pack_search' if (n <= 3 or dm <= 1) else None), replay_const={'na': n, 'a_dm': dm},
             covers=(['sequence with four full siblings'] if n >= 4 else []),
             domain='pack: every valid sequence of exactly %d entries (symbolic depth/hash/flag), depth_max %d, symbolic probe cell' % (n, dm))


def _bmoc_family(pid, mode):
    """Operator harnesses: (op, na, nb, dm_a, dm_b, tiers[, timeout, mem])."""
    L = []
    shapes = [
        # and
        (1, 1, 1, 2, 2, Q), (1, 2, 1, 2, 2, Q), (1, 1, 2, 1, 2, Q), (1, 2, 2, 2, 2, Q), (1, 1, 1, 3, 0, Q), (1, 1, 1, 0, 3, Q),
        (1, 1, 3, 2, 2, T), (1, 3, 1, 2, 2, T), (1, 2, 2, 2, 1, T), (1, 0, 1, 1, 1, T), (1, 1, 0, 1, 1, T),
        # not
        (0, 1, 0, 1, 1, Q), (0, 0, 0, 1, 1, Q), (0, 1, 0, 2, 2, T), (0, 2, 0, 1, 1, Q), (0, 2, 0, 2, 2, T), (0, 1, 0, 0, 0, T),
        # or
        (2, 1, 1, 1, 1, Q), (2, 1, 1, 2, 2, Q), (2, 1, 1, 1, 2, Q), (2, 1, 0, 1, 1, T), (2, 0, 1, 1, 1, T), (2, 1, 1, 2, 1, T),
        (2, 1, 2, 1, 1, T, 3600, 40), (2, 2, 1, 1, 1, T, 3600, 40),
        # xor
        (3, 1, 1, 1, 1, Q), (3, 1, 1, 2, 2, Q), (3, 1, 1, 2, 1, Q), (3, 1, 0, 1, 1, T), (3, 1, 1, 1, 2, T),
        (3, 1, 2, 1, 1, T, 3600, 40), (3, 2, 1, 1, 1, T, 3600, 40),
        # two cells of depth <= 1 against one base cell (a coarse cell overlapping several deeper cells), cheaper than the (2,1) shapes at equal depth_max
        (3, 2, 1, 1, 0, T, 2400, 16), (3, 1, 2, 0, 1, X, 2400, 40), (2, 2, 1, 1, 0, X, 2400, 40),   # the last two ran out of memory at 16 GB
    ]
    for sh in shapes:
        op, na, nb, dma, dmb, tiers = sh[:6]
        to = sh[6] if len(sh) > 6 else (1200 if tiers is Q else 2400)
        mem = sh[7] if len(sh) > 7 else 8
        L.append(_bmoc_h(pid, mode, op, na, nb, dma, dmb, tiers, timeout=to, mem_gb=mem))
    # or / xor end with pack(): the pack lemma (cut) is part of the claim
    L.append(_pack_h(pid, 4, 1, Q, timeout=1800))
    L.append(_pack_d_h(pid, 4, 2, 1, T))   # 8-9 min: quick tier of C15 only
    L.append(_pack_h(pid, 4, 2, T, timeout=3600, mem_gb=16))
    return L


def _pack_h(pid, n, dm, tiers, timeout=1800, mem_gb=8):
    B = 'nested::bmoc::'
    us = {'verif_common::Ops::valid#0': 6, 'verif_common::Ops::packed#0': 6, 'verif_common::Ops::state#0': 6,
          'verif_common::spec_scan#0': n + 1, B + 'verif_%s::p_pack#0' % pid.lower(): n + 1,
          B + 'BMOCBuilderUnsafe::pack#0': dm + 2, B + 'BMOCBuilderUnsafe::pack#1': n + 1, B + 'BMOCBuilderUnsafe::pack#2': n + 1}
    return H('%s_pack_%d_dm%d' % (pid.lower(), n, dm), 'k_pack(%d, %d);' % (n, dm), tiers=tiers, timeout=timeout, mem_gb=mem_gb,
             unwind=3, unwindset=us, stubs=_bmoc_stubs('verif_' + pid.lower()),
             inputs=_ops_inputs('a') + [('c', 'u64')], replay='bmoc_pack', replay_search=('bmoc_pack_search' if (n <= 3 or dm <= 1) else None), replay_const={'na': n, 'a_dm': dm},
             covers=(['sequence with four full siblings'] if n >= 4 else []),
             domain='pack: every valid sequence of exactly %d entries (symbolic depth/hash/flag), depth_max %d, symbolic probe cell' % (n, dm))


def _pack_d_h(pid, n, dm, dfix, tiers, timeout=2400, mem_gb=20):
    h = _pack_h(pid, n, dm, tiers, timeout=timeout, mem_gb=mem_gb)
    h['name'] = '%s_pack_%d_dm%d_d%d' % (pid.lower(), n, dm, dfix)
    h['call'] = 'k_pack_d(%d, %d, %d);' % (n, dm, dfix)
    h['covers'] = ['sequence with four full siblings', 'partial first sibling followed by three full siblings']
    h['replay_search'] = 'bmoc_pack_search'
    h['replay_const'] = {'na': n, 'a_dm': dm, 'dfix': dfix}
    h['domain'] = 'pack: every valid sequence of exactly %d entries all of depth %d (symbolic hash/flag), depth_max %d, symbolic probe cell' % (n, dfix, dm)
    return h


def _lower_h(pid, n, dm, nd, packing, tiers, timeout=1800, mem_gb=8):
    B = 'nested::bmoc::'
    us = {'verif_common::Ops::valid#0': 6, 'verif_common::Ops::state#0': 6, 'verif_common::spec_scan#0': n + 2,
          B + 'verif_%s::p_lower#0' % pid.lower(): n + 1, B + 'verif_%s::p_lower#1' % pid.lower(): n + 1,
          B + 'BMOCBuilderUnsafe::to_lower_depth#0': n + 2, B + 'BMOCBuilderUnsafe::to_lower_depth#1': n + 2,
          B + 'BMOCBuilderUnsafe::pack#0': dm + 2, B + 'BMOCBuilderUnsafe::pack#1': n + 1, B + 'BMOCBuilderUnsafe::pack#2': n + 1}
    return H('%s_lower_%d_dm%d_to%d%s' % (pid.lower(), n, dm, nd, '_packing' if packing else ''),
             'k_lower(%d, %d, %d, %s);' % (n, dm, nd, 'true' if packing else 'false'), tiers=tiers, timeout=timeout, mem_gb=mem_gb,
             unwind=3, unwindset=us, stubs=_bmoc_stubs('verif_' + pid.lower()),
             inputs=_ops_inputs('a') + [('c', 'u64')], replay='bmoc_lower',
             replay_const={'na': n, 'a_dm': dm, 'nd': nd, 'packing': 1 if packing else 0},
             covers=['cell deeper than the new depth'],
             domain='to_lower_depth_bmoc%s: every valid sequence of exactly %d entries, depth_max %d -> %d, symbolic probe cell'
                    % ('_packing' if packing else '', n, dm, nd))


def _layout_h(pid, n, dm, tiers):
    return H('%s_builder_layout_%d_dm%d' % (pid.lower(), n, dm), 'k_bmoc_builder_layout(%d, %d);' % (n, dm), tiers=tiers, timeout=900, mem_gb=8,
             unwind=n + 2, inputs=_ops_inputs('a'), replay='bmoc_builder_layout', replay_const={'na': n, 'a_dm': dm},
             covers=['operands exist'],
             domain='public BMOCBuilderUnsafe (real Vec::push): %d pushes of symbolic (depth, hash, flag), depth_max %d' % (n, dm))


_BMOC_FUNCS = ['BMOC::not', 'BMOC::and', 'BMOC::or', 'BMOC::xor', 'BMOC::not_in_cell_4_or', 'BMOC::not_in_cell_4_xor',
               'consume_while_overlapped', 'consume_while_overlapped_and_partial', 'go_up', 'go_down', 'dd_4_go_up', 'is_in',
               'Cell::new', 'build_raw_value', 'BMOCIter', 'BMOC::create_unsafe', 'BMOCBuilderUnsafe::{new,push,to_bmoc,to_bmoc_packing,pack}']
_BMOC_ASSUME = ['allocator-growth model: BMOCBuilderUnsafe::{new,push,push_raw_unsafe} write into a preallocated buffer of 40 entries, '
                'an assertion reports any overflow of that capacity (harness/kani/c07.rs); the real push is decided by the builder-layout harness',
                'cut at pack for or/xor: BMOCBuilderUnsafe::to_bmoc_packing is replaced by to_bmoc in the or/xor harnesses; pack is decided '
                'on arbitrary valid sequences by the pack harnesses (C15)',
                'operands are placed directly in a boxed slice in the documented raw layout (solver side); natively they are built through the public builder']
_BMOC_BOUNDS = {
    'quick': 'depth_max <= 2 (and (1,1) also with depth_max 3 vs 0); operand shapes (entries of a, entries of b): and (1,1),(2,1),(1,2),(2,2); not (0),(1),(2); or / xor (1,1) incl. operands of '
             'different depth_max; every depth/hash/flag of every entry symbolic; one symbolic probe cell (= all cells of the universe)',
    'thorough': 'adds and (1,3),(3,1),(0,1),(1,0); not (2) and depth_max 0 / 2; or / xor (1,0),(0,1),(1,1) at mixed depth_max; pack 4 entries at depth_max 2 (or / xor (1,2),(2,1) need 40 GB each: C08 keeps or (1,2) and xor (2,1), the others are tier extended)',
}
_BMOC_OUT = ('operands with more entries or depth_max > 2; sequences of operator applications (each application is decided from an '
             'arbitrary valid operand, which covers histories as long as outputs are valid -- asserted on every output)')

PROPS['C08'] = dict(
    inject=[dict(host='src/nested/bmoc.rs', mod='verif_c08', parts=['props/c07.rs', 'kani/c07.rs'])],
    harnesses=_bmoc_family('C08', 0),
    functions=_BMOC_FUNCS, bounds=_BMOC_BOUNDS, outside=_BMOC_OUT, assumptions=_BMOC_ASSUME,
)

_c07 = _bmoc_family('C07', 1)
for (idn, nm) in ((1, 'xor_self'),):
    _c07.append(H('c07_identity_%s_1_dm1' % nm, 'k_bmoc_identity(%d, 1, 1);' % idn, tiers=Q, timeout=1200, mem_gb=8, unwind=3,
                  unwindset=_bmoc_unwindset(1, 1, 1, 3), stubs=_bmoc_stubs('verif_c07') + _bmoc_cut_pack('verif_c07'),
                  inputs=_ops_inputs('a'), replay='bmoc_identity', replay_const={'id': idn, 'na': 1, 'a_dm': 1}, covers=['operands exist'],
                  domain='a xor a on every plain MOC of exactly 1 entry, depth_max 1'))
_c07.append(H('c07_identity_not_not_1_dm0', 'k_bmoc_identity(0, 1, 0);', tiers=X,   # out of memory at 8 GB
                  timeout=2400, mem_gb=8, unwind=3,
              unwindset=dict(_bmoc_unwindset(12, 0, 0, 0), **{'nested::bmoc::BMOC::equals#0': 14}), stubs=_bmoc_stubs('verif_c07'),
              inputs=_ops_inputs('a'), replay='bmoc_identity', replay_const={'id': 0, 'na': 1, 'a_dm': 0}, covers=['operands exist'],
              domain='not(not(a)) on every plain MOC of exactly 1 base cell, depth_max 0'))
_c07.append(H('c07_equals_2_2_dm2', 'k_bmoc_equals(2, 2, 2);', tiers=Q, timeout=900, mem_gb=8, unwind=4,
              inputs=_ops_inputs('a') + _ops_inputs('b') + [('c', 'u64')], replay='bmoc_equals', replay_const={'na': 2, 'nb': 2, 'a_dm': 2, 'b_dm': 2},
              covers=['equal first entries'], domain='equals on two canonical plain MOCs of 2 entries each, depth_max 2'))
PROPS['C07'] = dict(
    inject=[dict(host='src/nested/bmoc.rs', mod='verif_c07', parts=['props/c07.rs', 'kani/c07.rs'])],
    harnesses=_c07,
    functions=_BMOC_FUNCS + ['BMOC::equals'], bounds=_BMOC_BOUNDS,
    outside=_BMOC_OUT + '; canonical form of or/xor outputs = well-formedness (decided here) + pack lemma (C15 harnesses); the identities '
            'not(not a)=a, De Morgan, a or not(a)=sky follow from the pointwise semantics plus canonical form and are only decided directly for tiny operands',
    assumptions=_BMOC_ASSUME + ['C07 operands: all cells full and no four full siblings (canonical plain MOCs)'],
)

_VN = ['iter', 'flat', 'flatcell', 'array', 'ranges']


def _views_h(view, n, dm, tiers, timeout=1500, mem_gb=8):
    ds = n * 4 ** dm                      # largest possible deep size
    B = 'nested::bmoc::'
    us = {'verif_common::Ops::valid#0': 6, 'verif_common::Ops::state#0': 6, B + 'verif_c09::c09_deep_size#0': 6,
          B + 'BMOC::deep_size#0': n + 1, B + 'verif_c09::p_bmoc_views#0': n + 2, B + 'verif_c09::p_bmoc_views#1': ds + 2,
          B + 'verif_c09::p_bmoc_views#2': ds + 2, B + 'verif_c09::p_bmoc_views#3': n + 2,
          B + 'BMOC::to_flat_array#0': ds + 2, B + 'BMOC::to_ranges#0': n + 2}
    return H('c09_views_%s_%d_dm%d' % (_VN[view], n, dm), 'k_bmoc_views(%d, %d, %d);' % (view, n, dm), tiers=tiers, timeout=timeout, mem_gb=mem_gb,
             unwind=3, unwindset=us, inputs=_ops_inputs('a') + [('c', 'u64'), ('k', 'u32')], replay='bmoc_views',
             replay_const={'view': view, 'na': n, 'a_dm': dm}, covers=(['an entry above depth_max'] if n else []),
             domain='view %s of every valid BMOC of exactly %d entries, depth_max %d, symbolic probe cell / index' % (_VN[view], n, dm))


_c09 = [_views_h(v, 2, 1, Q if v != 3 else T, mem_gb=(8 if v != 3 else 24)) for v in range(5)] + [_views_h(v, 0, 1, Q, timeout=600) for v in (1, 3, 4)] \
    + [_views_h(v, 1, 2, T, timeout=3000, mem_gb=12) for v in range(5)] + [_views_h(v, 3, 1, T, timeout=3000, mem_gb=12) for v in range(5)] + [
    _layout_h('C09', 2, 2, Q), _layout_h('C09', 3, 2, T),
    # operator outputs are well formed: the C08 harnesses assert spec_wf on every output; two of them are re-run here
    _bmoc_h('C09', 0, 1, 2, 2, 2, 2, Q), _bmoc_h('C09', 0, 0, 1, 0, 1, 1, Q), _bmoc_h('C09', 0, 3, 1, 1, 1, 1, Q),
    _bmoc_h('C09', 0, 3, 2, 1, 1, 0, T, timeout=2400, mem_gb=16),   # a coarse cell overlapping two deeper cells
]
# whole-sky cone outputs are well formed (12 full base cells): same harness as C06, registered here for the "coverage query" producers
for (_d, _dl) in ((3, 0), (2, 2)):
    _c09.append(H('c09_allsky_d%d_dd%d' % (_d, _dl), 'k_c06_allsky(%d, %d);' % (_d, _dl), tiers=Q, timeout=1200, mem_gb=8, unwind=14, mod='verif_c09n',
                  stubs=[('f64::sin', 'crate::verif_common::sin_stub'), ('f64::cos', 'crate::verif_common::cos_stub'), ('f64::asin', 'crate::verif_common::asin_stub'),
                         ('f64::acos', 'crate::verif_common::acos_stub'), ('crate::nested::bmoc::BMOCBuilderUnsafe::pack', 'crate::nested::bmoc::verif_c09::stub_pack_identity')],
                  inputs=[('lon', 'f64'), ('lat', 'f64')], replay='c06_allsky', replay_const={'depth': _d, 'delta': _dl}, covers=['NaN centre'],
                  domain='whole-sky cone output, depth %d, delta_depth %d: radius in {pi, next double, 4, 1e300, +inf}, every double centre' % (_d, _dl)))
PROPS['C09'] = dict(
    inject=[dict(host='src/nested/bmoc.rs', mod='verif_c09', parts=['props/c07.rs', 'kani/c07.rs', 'props/c09.rs', 'kani/c09.rs']),
            dict(host='src/nested/mod.rs', mod='verif_c09n', parts=['props/c06.rs', 'kani/c06.rs'])],
    harnesses=_c09,
    functions=['BMOC::{into_iter,flat_iter,flat_iter_cell,to_flat_array,deep_size,to_ranges,from_raw_value}', 'BMOCFlatIter', 'BMOCFlatIterCell',
               'BMOCIter', 'Cell::new', 'build_raw_value', 'to_range'] + _BMOC_FUNCS[:4],
    bounds={'quick': 'views: every valid BMOC with (entries, depth_max) in {(0,1),(2,1),(1,2)}; builder layout: 2 pushes; operator outputs: and (2,2), not (1), xor (1,1); fixed-depth builder: one drain_buffer step (sort model, real dedup, merge) on every buffer of 3 cells that push can leave, depth 1',
            'thorough': 'adds views (1 entry, depth_max 2) except the flat array (out of memory at 12 / 24 GB: tier extended); builder layout 3 pushes; output of xor (2 cells of depth <= 1, one base cell) (views of 3 entries: tier extended)'},
    outside='outputs of cone / polygon / ellipse queries (their recursion order is not decided here); longer BMOCs; well-formedness of every operator and '
            'builder output is asserted in the C07 / C08 / C15 harnesses',
    assumptions=_BMOC_ASSUME,
)

_c15 = [
    _pack_h('C15', 4, 1, Q, timeout=1500), _pack_h('C15', 2, 2, Q, timeout=900), _pack_d_h('C15', 4, 2, 1, Q),
    _pack_h('C15', 3, 2, T, timeout=2400), _pack_h('C15', 4, 2, T, timeout=3600, mem_gb=16),
    _lower_h('C15', 2, 2, 1, False, Q), _lower_h('C15', 2, 1, 0, True, Q),
    _lower_h('C15', 2, 2, 0, False, T), _lower_h('C15', 3, 2, 1, False, T), _lower_h('C15', 2, 2, 1, True, T),
]
for (dep, cap, m, tiers) in ((1, 3, 2, Q), (1, 1, 2, Q), (1, 4, 0, Q), (1, 4, 1, Q), (1, 4, 3, T), (0, 4, 4, T), (1, 2, 2, T), (2, 4, 4, T), (1, 1, 3, T), (0, 3, 3, T)):
    B = 'nested::bmoc::'
    us = dict(_bmoc_unwindset(1, 1, dep, 2))
    us.update({B + 'BMOCBuilderFixedDepth::buff_to_bmoc#0': m + 1, B + 'BMOCBuilderFixedDepth::largest_lower_cell_sequence_len#0': m + 1,
               B + 'BMOC::create_unsafe_copying#0': m + 1, B + 'verif_c15::p_fixed_builder#0': 6, B + 'verif_c15::p_fixed_builder#1': 6,
               B + 'verif_c15::p_fixed_builder#2': 6, 'verif_common::spec_scan#0': m + 8,
               B + 'verif_c15::model_sort#0': 5, B + 'verif_c15::model_sort#1': 5})
    _c15.append(H('c15_fixed_d%d_cap%d_m%d' % (dep, cap, m), 'k_fixed_builder(%d, %d, %d);' % (dep, cap, m), tiers=tiers,
                  timeout=1800 if tiers is Q else 5400, mem_gb=10 if tiers is Q else 40, unwind=m + 2, unwindset=us,
                  stubs=_bmoc_stubs('verif_c15') + _bmoc_cut_pack('verif_c15') + [('<[u64]>::sort_unstable', 'crate::nested::bmoc::verif_c15::model_sort')],
                  inputs=[('is_full', 'bool'), ('p0', 'u64'), ('p1', 'u64'), ('p2', 'u64'), ('p3', 'u64'), ('c', 'u64')],
                  replay='fixed_builder', replay_const={'depth': dep, 'cap': cap, 'm': m},
                  covers=(['unsorted pushes', 'duplicate push'] if m >= 2 else []),
                  domain='BMOCBuilderFixedDepth depth %d, buffer capacity %d, %d pushes of symbolic cell numbers (any order, duplicates), symbolic flag, symbolic probe cell' % (dep, cap, m)))
for (dep, m, tiers) in ((0, 4, Q), (1, 4, Q), (2, 4, T), (1, 3, T)):
    B = 'nested::bmoc::'
    us = dict(_bmoc_unwindset(1, 1, dep, 2))
    us.update({B + 'BMOCBuilderFixedDepth::buff_to_bmoc#0': m + 1, B + 'BMOCBuilderFixedDepth::largest_lower_cell_sequence_len#0': m + 1,
               B + 'BMOC::create_unsafe_copying#0': m + 1, B + 'verif_c15::k_fixed_buff#0': 6, B + 'verif_c15::k_fixed_buff#1': 6, 'verif_common::spec_scan#0': m + 8})
    _c15.append(H('c15_buff_d%d_m%d' % (dep, m), 'k_fixed_buff(%d, %d);' % (dep, m), tiers=tiers, timeout=2400, mem_gb=12, unwind=m + 2, unwindset=us,
                  stubs=_bmoc_stubs('verif_c15'),
                  inputs=[('is_full', 'bool'), ('p0', 'u64'), ('p1', 'u64'), ('p2', 'u64'), ('p3', 'u64'), ('c', 'u64')],
                  replay='fixed_builder', replay_const={'depth': dep, 'cap': 8, 'm': m},
                  covers=['four siblings', 'consecutive cells that are not a complete parent'] if m == 4 else ['consecutive cells that are not a complete parent'],
                  domain='BMOCBuilderFixedDepth::buff_to_bmoc at depth %d on every strictly increasing buffer of %d cells (the state after sort + dedup), symbolic flag, symbolic probe cell' % (dep, m)))
def _drain_h(pid, dep, m, tiers):
    B = 'nested::bmoc::'
    mod = 'verif_' + pid.lower()
    us = dict(_bmoc_unwindset(1, 1, dep, 2))
    us.update({B + 'BMOCBuilderFixedDepth::buff_to_bmoc#0': m + 1, B + 'BMOCBuilderFixedDepth::largest_lower_cell_sequence_len#0': m + 1,
               B + 'BMOC::create_unsafe_copying#0': m + 1, B + mod + '::k_fixed_drain#0': 6, B + mod + '::k_fixed_drain#1': 6, 'verif_common::spec_scan#0': m + 8,
               B + mod + '::model_sort#0': 5, B + mod + '::model_sort#1': 5})
    return H('%s_drain_d%d_m%d' % (pid.lower(), dep, m), 'k_fixed_drain(%d, %d);' % (dep, m), tiers=tiers, timeout=2400, mem_gb=16, unwind=m + 2, unwindset=us,
             stubs=_bmoc_stubs(mod) + [('<[u64]>::sort_unstable', 'crate::nested::bmoc::' + mod + '::model_sort')],
             inputs=[('is_full', 'bool'), ('p0', 'u64'), ('p1', 'u64'), ('p2', 'u64'), ('p3', 'u64'), ('c', 'u64')],
             replay='fixed_builder', replay_const={'depth': dep, 'cap': 8, 'm': m},
             covers=['late duplicate after a descent'],
             domain='BMOCBuilderFixedDepth::drain_buffer (sort model, real Vec::dedup, buff_to_bmoc) at depth %d from the initial state on every buffer of %d cells that push can leave (any order, non-consecutive duplicates), symbolic flag, symbolic probe cell' % (dep, m))


for (dep, m, tiers) in ((1, 3, T), (0, 3, T), (1, 4, X)):
    _c15.append(_drain_h('C15', dep, m, tiers))
_c09.append(_drain_h('C09', 1, 3, Q))
for (dep, tiers) in ((1, T), (2, X)):
    B = 'nested::bmoc::'
    us = dict(_bmoc_unwindset(1, 1, dep, 2))
    us.update({B + 'BMOCBuilderFixedDepth::buff_to_bmoc#0': 2, B + 'BMOCBuilderFixedDepth::largest_lower_cell_sequence_len#0': 2,
               B + 'BMOC::create_unsafe_copying#0': 2, 'verif_common::spec_scan#0': 9})
    _c15.append(H('c15_merge_d%d' % dep, 'k_fixed_merge(%d);' % dep, tiers=tiers, timeout=2400, mem_gb=16, unwind=3, unwindset=us,
                  stubs=_bmoc_stubs('verif_c15') + _bmoc_cut_pack('verif_c15'),
                  inputs=[('is_full', 'bool'), ('d0', 'u8'), ('h0', 'u64'), ('p0', 'u64'), ('c', 'u64')],
                  replay='fixed_merge', replay_const={'depth': dep},
                  covers=['flushed cell inside the accumulated coarse cell'],
                  domain='BMOCBuilderFixedDepth::drain_buffer at depth %d across a flush: accumulated BMOC = one symbolic cell of any depth <= %d (merged or not), buffer = one symbolic cell, symbolic flag, symbolic probe cell (end to end this is up to 4^%d + 1 pushes over two flushes)' % (dep, dep, dep)))
PROPS['C15'] = dict(
    inject=[dict(host='src/nested/bmoc.rs', mod='verif_c15', parts=['props/c07.rs', 'kani/c07.rs', 'props/c09.rs', 'kani/c09.rs'])],
    harnesses=_c15,
    functions=['BMOCBuilderFixedDepth::{with_capacity,push,to_bmoc,drain_buffer,buff_to_bmoc,largest_lower_cell_sequence_len,clear_buff}', 'BMOC::or',
               'BMOCBuilderUnsafe::{pack,to_lower_depth,to_bmoc_packing,to_lower_depth_bmoc,to_lower_depth_bmoc_packing,low_depth_raw_val_at_lower_depth}',
               'slice::sort_unstable', 'Vec::dedup'],
    bounds={'quick': 'pack: every valid sequence of 4 entries at depth_max 1 and of 2 entries at depth_max 2; lower depth: 2 entries, 2->1 and 1->0 (packing); '
                     'fixed-depth builder: depth 1, (capacity, pushes) in {(3,2),(1,2),(4,1),(4,0)} (2 pushes in any order, duplicates included); its merge step buff_to_bmoc alone: every strictly increasing buffer of 4 cells at depths 0 and 1',
            'thorough': 'pack: 3 and 4 entries at depth_max 2; lower depth: 3 entries, 2->0; buff_to_bmoc on 4 cells at depth 2 and 3 cells at depth 1; fixed-depth builder end to end (sort model, 40 GB): 2 pushes capacity 2 depth 1 (other shapes, e.g. 4 pushes capacity 4 -- out of memory at 40 GB: tier extended); one whole drain_buffer step from the initial state on every buffer of 3 cells push can leave (any order, late duplicates), depths 0 and 1; the step across a buffer flush (accumulated BMOC of one symbolic cell of any depth + one buffered cell), depth 1'},
    outside='push sequences longer than 4, sequences longer than 4 entries; in the fixed-depth builder harnesses the packing step of `or` is cut (pack is decided by the pack harnesses) '
            'and std slice::sort_unstable is replaced by an insertion-sort model (<= 4 elements, asserted)',
    assumptions=_BMOC_ASSUME,
)

# ------------------------------------------------------------------------------------------- C14
_FMT = [('std::fmt::format', 'crate::verif_common::stub_format'), ('std::io::_print', 'crate::verif_common::stub_print')]
_c14 = []
def _c14_add(d, dl, tiers):
    m = (1 << dl) - 1
    dom = 'depth %d, delta_depth %d: every cell' % (d, dl)
    common = dict(tiers=tiers, timeout=2400, mem_gb=12, stubs=_FMT)
    _c14.append(H('c14_internal_d%d_dd%d' % (d, dl), 'k_c14_internal(%d, %d);' % (d, dl), unwind=max(9, d + dl + 1, 4 * m + 2),
                  inputs=[('hash', 'u64'), ('k', 'u32'), ('k2', 'u32')], replay='c14_internal', replay_const={'depth': d, 'delta': dl},
                  covers=['last cell of the walk'], domain=dom + ', every position of the walk / of the sorted list', **common))
    _c14.append(H('c14_parts_d%d_dd%d' % (d, dl), 'k_c14_parts(%d, %d);' % (d, dl), unwind=max(9, d + dl + 1, m + 2),
                  inputs=[('hash', 'u64'), ('k', 'u32')], replay='c14_parts', replay_const={'depth': d, 'delta': dl},
                  covers=['last cell of a side'], domain=dom + ', every position of each side', **common))
    for srt in (0, 1):
        _c14.append(H('c14_external%s_d%d_dd%d' % ('_sorted' if srt else '', d, dl), 'k_c14_external(%d, %d, %s);' % (d, dl, 'true' if srt else 'false'),
                      unwind=max(10, d + dl + 1, 4 * (m + 1) + 6),
                      inputs=[('hash', 'u64'), ('c', 'u64'), ('k', 'u32')], replay='c14_external', replay_const={'depth': d, 'delta': dl, 'sorted': srt},
                      covers=['adjacent outside cell in another base cell'], domain=dom + ' x every cell of depth %d' % (d + dl),
                      **dict(common, tiers=T, mem_gb=40, timeout=5400)))
    _c14.append(H('c14_struct_d%d_dd%d' % (d, dl), 'k_c14_struct(%d, %d);' % (d, dl), unwind=max(10, d + dl + 1, 4 * (m + 1) + 6),
                  inputs=[('hash', 'u64'), ('c', 'u64')], replay='c14_struct', replay_const={'depth': d, 'delta': dl},
                  covers=['a north corner cell exists'], domain=dom + ' x every cell of depth %d' % (d + dl), **dict(common, tiers=T, mem_gb=40, timeout=5400)))
for _d in (0, 1, 2):
    for _dl in (1, 2):
        _c14_add(_d, _dl, Q if (_d, _dl) in ((0, 1), (1, 1), (1, 2)) else T)
for _d in (0, 1, 2, 3, 29):
    _c14.append(H('c14_dirs_d%d' % _d, 'k_c14_dirs(%d);' % _d, tiers=Q if _d <= 2 else T, timeout=1800, mem_gb=8, unwind=max(4, _d + 1), stubs=_FMT,
                  inputs=[('a', 'u64'), ('k', 'u8')], replay='c14_dirs', replay_const={'depth': _d},
                  covers=['south polar base cell', 'north polar base cell, N direction'],
                  domain='depth %d: every cell x every direction: seam tables (direction of a border cell seen from its neighbour in another base cell)' % _d))
# depth + delta_depth = 29 (the statement includes it)
_c14.append(H('c14_internal_d28_dd1', 'k_c14_internal(28, 1);', tiers=Q, timeout=1200, mem_gb=8, unwind=30, stubs=_FMT,
              inputs=[('hash', 'u64'), ('k', 'u32'), ('k2', 'u32')], replay='c14_internal', replay_const={'depth': 28, 'delta': 1},
              covers=['last cell of the walk'], domain='depth 28, delta_depth 1 (depth + delta = 29): every cell'))
for w in (0, 1, 2):
    _c14.append(H('c14_guard_%d' % w, 'k_c14_guard(1, 1, %d);' % w, tiers=T, timeout=5400, mem_gb=40, should_panic=True, unwind=10, stubs=_FMT,
                  inputs=[('hash', 'u64')], replay='c14_guard', replay_const={'depth': 1, 'delta': 1, 'which': w},
                  never=['guard bypassed'], domain='depth 1, every cell number >= 48'))
PROPS['C14'] = dict(
    inject=[dict(host='src/nested/mod.rs', mod='verif_c14', parts=['props/c14.rs', 'kani/c14.rs'])],
    harnesses=_c14,
    functions=['nested::internal_edge', 'nested::internal_edge_sorted', 'Layer::internal_edge', 'Layer::internal_edge_sorted', 'nested::internal_corner*',
               'nested::internal_edge_part*', 'edge_cell_direction_from_neighbour', 'direction_from_neighbour', '{npc,eqr,spc}_edge_direction_from_neighbour',
               'nested::external_edge', 'nested::external_edge_sorted', 'nested::external_edge_struct', 'Layer::external_edge_generic', 'ExternalEdge'],
    bounds={'quick': 'internal edge (walk order, sorted variant) and corner / side helpers: every cell, (depth, delta) in {(0,1),(1,1),(1,2),(28,1)}; seam direction tables: '
                     'every cell x every direction at depths 0, 1, 2',
            'thorough': 'adds (depth, delta) in {(0,2),(2,1),(2,2)} and the seam tables at depths 3 and 29'},
    outside='NOT decided by a registered command: the assembly of the external edge from neighbours + seam tables + internal sides (external_edge_generic / external_edge_struct themselves): the harnesses c14_external_* / c14_struct_* '
            '(plane oracle, 5 M variables at depth 0 because of the std iterator / Vec machinery) did not finish in 40 min at 40 GB and are tier extended; what is decided are the three ingredients (neighbours: C04, seam direction tables, internal sides); delta_depth > 2',
    assumptions=['plane oracle (harness/common/oracles.rs)', 'seam-table harness: Layer::neighbour is the adjacency oracle (decided against plane geometry by C04)',
                 'std::fmt::format / std::io::_print replaced by empty stubs (error messages, one stray println!)'],
)


# ------------------------------------------------------------------------------------------- C01 / C02 (float: libm contracts)
_LIBM = [('f64::sin', 'crate::verif_common::sin_stub'), ('f64::cos', 'crate::verif_common::cos_stub'),
         ('f64::asin', 'crate::verif_common::asin_stub'), ('f64::acos', 'crate::verif_common::acos_stub')]
_LIBM_ASSUME = ['libm contracts (harness/common/libm.rs): sin, cos, asin, acos return any double satisfying range / sign / symmetry / interval-image '
                'facts that hold for the true functions within 1 ulp, and are deterministic; validated against the platform libm on every run (replay libm_validate)']
_CUT = [('crate::nested::Layer::d0h_lh_in_d0c', 'crate::nested::verif_%s::stub_d0h_lh')]

_c01 = []
for _d in range(30):
    _c01.append(H('c01_e2e_d%d' % _d, 'k_c01_e2e(%d);' % _d, tiers=Q if _d in (0, 1, 2, 3) else T, timeout=1500 if _d <= 3 else 3600, mem_gb=6,
                  unwind=3, stubs=_LIBM, inputs=[('lon', 'f64'), ('lat', 'f64')], replay='c01_all_depths',
                  covers=['north cap, second turn', 'south cap, negative longitude', 'transition latitude', 'north pole'],
                  domain='depth %d: every double lon in [-25.2, 25.2], every double lat in [-pi/2, pi/2], through the public nested::hash' % _d))
def _r_harnesses(prefix):
    L = []
    for reg, rn in ((0, 'npc'), (1, 'eqr'), (2, 'spc')):
        for neg in (0, 1):
            for lite in (0,):
                # north cap: (2 - t) + x t < 2 + 2^-28 needs the monotonicity of a 53x53 float multiplier: ~20-25 min per harness => thorough tier;
                # in the quick tier the north cap is covered end to end at depths 0..3 (c01_e2e_*) only
                L.append(H('%s_r%s_%s_%s' % (prefix, 'lite' if lite else '', rn, 'neg' if neg else 'pos'), 'k_c01_r(%d, %s, %s);' % (reg, 'true' if neg else 'false', 'true' if lite else 'false'),
                           tiers=(T if (reg == 0 and not lite) else Q), timeout=3600, mem_gb=6, unwind=3, stubs=_LIBM, inputs=[('lon', 'f64'), ('lat', 'f64')],
                           replay='c01_all_depths', covers=['second turn', 'zero longitude'],
                           domain='lemma R%s on the real Layer::d0h_lh_in_d0c: every double lon %s in [-25.2, 25.2], every lat of the %s region'
                                  % (' (without the sign clause)' if lite else '', '< 0 (sign bit set)' if neg else '>= 0', {'npc': 'north polar cap', 'eqr': 'equatorial', 'spc': 'south polar cap'}[rn])))
    return L


_c01 += _r_harnesses('c01')
for reg, rn in ((0, 'npc'), (1, 'eqr'), (2, 'spc')):
    for neg in (0, 1):
        for bits in ((0,) if reg == 1 else (0, 255, 6)):
            for quarter in range(4):
                for turn in (0, 1):
                    nm = 'c01_p_%s_%s_q%d_t%d%s' % (rn, 'neg' if neg else 'pos', quarter, turn, ('_mag' if bits == 255 else '_prod%d' % bits) if bits else '')
                    _c01.append(H(nm, 'k_c01_p(%d, %s, %d, %d, %d);' % (reg, 'true' if neg else 'false', bits, quarter, turn),
                                  tiers=T, timeout=3600, mem_gb=6, unwind=3,
                                  stubs=_LIBM, inputs=[('lon', 'f64'), ('lat', 'f64')], replay='c01_all_depths',
                                  covers=['domain non empty'] + (['product clause reached'] if bits not in (0, 255) else []),
                                  domain='lemma P on the real Layer::d0h_lh_in_d0c: lon %s, quarter %d of the %s turn(s), %s region: base cell, h and side of l against the reference projection (2^-46)%s'
                                         % ('< 0' if neg else '>= 0', quarter, 'first' if turn == 0 else 'later', rn,
                                            ('; |l| <= t' if bits == 255 else '; exact l for cosines with <= %d significant bits' % bits) if bits else '')))
for reg, rn in ((0, 'npc'), (1, 'eqr'), (2, 'spc')):
    for neg in (0, 1):
        for cls in ((255,) if reg != 1 else (0, 1, 2)):
            for ft in ((0,) if reg != 1 else (1, 0)):
                # equatorial region: relating the quadrant comparisons of the code to the triangle containment of the oracle takes 15+ min per class
                # even for the first turn only => thorough tier (the quick tier covers the equatorial region end to end at depths 0..3 for range, and through lemma R)
                _c01.append(H('c01_b_%s_%s%s%s' % (rn, 'neg' if neg else 'pos', '' if cls == 255 else '_c%d' % cls, '_t0' if ft else ''),
                              'k_c01_b(%d, %s, %d, %s);' % (reg, 'true' if neg else 'false', cls, 'true' if ft else 'false'),
                              tiers=(T if reg == 1 else Q), timeout=3600, mem_gb=6, unwind=3,
                              stubs=_LIBM, inputs=[('lon', 'f64'), ('lat', 'f64')], replay='c01_all_depths', covers=['second turn'] + (['class non empty'] if reg == 1 else []),
                              domain='coarse placement on the real Layer::d0h_lh_in_d0c: lon %s%s, %s region%s: the reference projection lies within 2^-20 of the returned base cell'
                                     % ('< 0' if neg else '>= 0', ' (first turn)' if ft else '', rn, '' if cls == 255 else ', positions mapped to a %s base cell' % ['north polar', 'south polar', 'equatorial'][cls])))
for (lo, hi) in ((0, 0), (1, 8), (9, 16), (17, 29)):
    _c01.append(H('c01_s_d%d_%d' % (lo, hi), 'k_c01_s(%d, %d);' % (lo, hi), tiers=Q, timeout=1800, mem_gb=8, unwind=max(4, hi + 1),
                  stubs=[(a, b % 'c01') for a, b in _CUT], inputs=[('depth', 'u8'), ('d0h', 'u8'), ('l', 'f64'), ('h', 'f64')], replay='c01_pullback',
                  covers=['clamp i == nside', 'negative rounding noise'],
                  domain='scaling step of hash_v2: depth symbolic in %d..=%d, every interface value (base cell, l, h) satisfying R' % (lo, hi)))
for _d in (0, 5, 29):
    _c01.append(H('c01_guard_d%d' % _d, 'k_c01_guard(%d);' % _d, tiers=Q, timeout=600, mem_gb=6, should_panic=True, unwind=3, stubs=_LIBM,
                  inputs=[('lon', 'f64'), ('lat', 'f64')], replay='c01_guard', replay_const={'depth': _d},
                  covers=['NaN latitude'], never=['guard bypassed'], domain='depth %d: every lat outside [-pi/2, pi/2] incl. NaN, every lon' % _d))
PROPS['C01'] = dict(
    inject=[dict(host='src/nested/mod.rs', mod='verif_c01', parts=['props/c01.rs', 'kani/c01.rs'])],
    harnesses=_c01, libm=True,
    functions=['nested::hash', 'Layer::hash', 'Layer::hash_v2', 'Layer::d0h_lh_in_d0c', 'Layer::xpm1_and_q', 'Layer::build_hash_from_parts', 'Layer::build_hash',
               'ZOrderCurve::ij2h', 'check_lat', 'Layer::new', 'nested::get_or_create'],
    bounds={'quick': 'lon in [-25.2, 25.2] (about +-8 pi), lat in [-pi/2, pi/2], all doubles; end-to-end totality/range at depths 0..3; lemma R+P on the real '
                     'base-cell/in-cell computation (depth independent); scaling lemma S for every depth 0..=29 (symbolic per z-order class); guards at depths 0, 5, 29',
            'thorough': 'adds end-to-end totality/range at depths 4, 8, 16, 17, 29 and lemma R in the north cap (other depths, lemma P product clauses and the equatorial B split: tier extended)'},
    outside='|lon| > 25.2; positions exactly on a polar facet seam are excluded from the placement lemma P (they are covered by R, by the end-to-end runs and by the native oracle); '
            'containment is decided as P (placement within 2^-46 projection units, from the same libm values) composed with S (exact floor in the scaled frame)',
    assumptions=_LIBM_ASSUME + ['assume-guarantee cut at Layer::d0h_lh_in_d0c: lemma R is proved on the real producer (c01_r_*) and assumed by the consumer harnesses (c01_s_*, c02_*)'],
)

_c02 = []
for (lo, hi) in ((0, 0), (1, 7), (8, 8), (9, 15), (16, 16), (17, 28)):
    _c02.append(H('c02_prefix_d%d_%d' % (lo, hi), 'k_c02_prefix(%d, %d);' % (lo, hi), tiers=Q, timeout=2400, mem_gb=8, unwind=max(4, hi + 2),
                  stubs=[(a, b % 'c02') for a, b in _CUT], inputs=[('depth', 'u8'), ('d0h', 'u8'), ('l', 'f64'), ('h', 'f64')], replay='c01_pullback',
                  covers=['reached'],
                  domain='hash at depth d and d+1 on the same interface value: d symbolic in %d..=%d, every (base cell, l, h) satisfying R' % (lo, hi)))
_c02 += _r_harnesses('c02')
PROPS['C02'] = dict(
    inject=[dict(host='src/nested/mod.rs', mod='verif_c02', parts=['props/c01.rs', 'kani/c01.rs'])],
    harnesses=_c02, libm=True,
    functions=['Layer::hash_v2 (scaling by exponent-bit addition, clamp)', 'Layer::new (time_half_nside)', 'Layer::build_hash_from_parts', 'Layer::d0h_lh_in_d0c (lemma R)'],
    bounds={'all': 'all 29 adjacent depth pairs (d, d+1), d symbolic; every finite (l, h) with h+-l < 2+2^-28, incl. -0.0-free / subnormal-free as proved by R; '
                   'non-adjacent pairs follow by transitivity of the 2-bit shift'},
    outside='nothing beyond lemma R (decided on the real code by c02_r_*) and the depth independence of Layer::d0h_lh_in_d0c (by signature: it has no self)',
    assumptions=_LIBM_ASSUME + ['assume-guarantee cut at Layer::d0h_lh_in_d0c'],
)

# ------------------------------------------------------------------------------------------- C17
_c17 = []
for reg, rn in ((0, 'npc'), (1, 'eqr'), (2, 'spc')):
    for neg in (0, 1):
        sfx = '%s_%s' % (rn, 'neg' if neg else 'pos')
        for image in ((1,) if reg == 1 else (0, 1)):
            _c17.append(H('c17_proj_%s%s' % ('' if image else 'basic_', sfx), 'k_c17_proj(%d, %s, %s);' % (reg, 'true' if neg else 'false', 'true' if image else 'false'),
                          tiers=(Q if (reg == 1 or not image) else X), timeout=5400, mem_gb=6, unwind=3, stubs=_LIBM,
                          inputs=[('lon', 'f64'), ('lat', 'f64')], replay='c17_native', covers=['second turn', 'pole or equator'],
                          domain='proj: every double lon %s in [-25.2, 25.2], every lat of the %s region: range, sign%s' % ('< 0' if neg else '>= 0', rn, ', image facets' if image else '')))
        _c17.append(H('c17_proj_formula_' + sfx, 'k_c17_proj_formula(%d, %s);' % (reg, 'true' if neg else 'false'), tiers=(Q if reg == 1 else X), timeout=(2400 if reg == 1 else 5400), mem_gb=6, unwind=3,
                      stubs=_LIBM + [('crate::pm1_offset_decompose', 'crate::verif_c17::stub_pm1_offset_decompose')], inputs=[('lon', 'f64'), ('lat', 'f64')], replay='c17_native',
                      covers=['second turn'] + (['polar product clause reached'] if reg != 1 else []),
                      domain='proj, %s region, lon %s: x, y are the Calabretta-Roukema expressions of (pm1, offset, lat) for ANY (pm1, offset) allowed by the decomposition contract' % (rn, '< 0' if neg else '>= 0')))
        for turn in range(4):
            _c17.append(H('c17_proj_ref_%s_t%d' % (sfx, turn), 'k_c17_proj_ref(%d, %s, %d);' % (reg, 'true' if neg else 'false', turn), tiers=X, timeout=3600, mem_gb=6, unwind=3,
                          stubs=_LIBM, inputs=[('lon', 'f64'), ('lat', 'f64')], replay='c17_native', covers=['last quarter of the turn'] + (['polar product clause reached'] if reg != 1 else []),
                          domain='proj: |lon| * 4/pi in [%d, %s: agreement with the reference formulae within 2^-46 (polar caps: y for every position, x for cosines with <= 6 significant bits)' % (8 * turn, '%d)' % (8 * turn + 8) if turn < 3 else '32.09]')))
for row in range(4):
    for q in range(4):
        _c17.append(H('c17_base_cell_r%d_q%d' % (row, q), 'k_c17_base_cell(%d, %d);' % (row, q), tiers=Q, timeout=2400, mem_gb=6, unwind=3,
                      inputs=[('x', 'f64'), ('y', 'f64')], replay='c17_base_cell', covers=['negative x', 'facet centre line'],
                      domain='base_cell_from_proj_coo: every double image point with y in row %d of 4 and x (mod 8) in [%d, %d)' % (row, 2 * q, 2 * q + 2)))
_c17.append(H('c17_proj_arg', 'k_c17_proj_arg();', tiers=Q, timeout=1800, mem_gb=6, unwind=3,
              stubs=_LIBM + [('crate::pm1_offset_decompose', 'crate::verif_c17::stub_pm1_offset_decompose')], inputs=[('lon', 'f64')], replay='c17_native', replay_const={'lat': 0.25},
              covers=['second turn', 'negative longitude'],
              domain='proj: the value handed to pm1_offset_decompose is bit-identical to |lon| * 4/pi: every lon in [-25.2, 25.2] with at most 13 significant bits'))
_c17.append(H('c17_pm1', 'k_c17_pm1();', tiers=Q, timeout=1200, mem_gb=6, unwind=3, inputs=[('xs', 'f64')], replay='c17_pm1', covers=['xs = 8', 'fourth turn'],
              domain='pm1_offset_decompose (real code): every double in [0, 32.1]'))
_c17 += [
    H('c17_unproj', 'k_c17_unproj();', tiers=Q, timeout=2400, mem_gb=8, unwind=3, stubs=_LIBM, inputs=[('x', 'f64'), ('y', 'f64')], replay='c17_native_plane',
      covers=['next to the north pole, negative x', 'south transition'], domain='unproj: every double (x, y) in [-8, 8] x [-2, 2]: range and sign'),
    H('c17_guard_proj', 'k_c17_guard(0);', tiers=Q, timeout=600, mem_gb=6, should_panic=True, unwind=3, stubs=_LIBM, inputs=[('a', 'f64'), ('b', 'f64')],
      replay='c17_guard', replay_const={'which': 0}, never=['guard bypassed'], domain='proj: every lat outside [-pi/2, pi/2] incl. NaN'),
    H('c17_guard_unproj', 'k_c17_guard(1);', tiers=Q, timeout=600, mem_gb=6, should_panic=True, unwind=3, stubs=_LIBM, inputs=[('a', 'f64'), ('b', 'f64')],
      replay='c17_guard', replay_const={'which': 1}, never=['guard bypassed'], domain='unproj: every y outside [-2, 2] incl. NaN'),
]
PROPS['C17'] = dict(
    inject=[dict(host='src/lib.rs', mod='verif_c17', parts=['props/c17.rs', 'kani/c17.rs'])],
    harnesses=_c17, libm=True,
    functions=['proj', 'unproj', 'abs_sign_decompose', 'pm1_offset_decompose', 'proj_cea', 'proj_collignon', 'deproj_cea', 'deproj_collignon',
               'apply_offset_and_signs', 'check_lat', 'check_y', 'base_cell_from_proj_coo', 'ensures_x_is_positive'],
    bounds={'all': 'every double in the stated domains (|lon| <= 25.2); no loops'},
    outside='NOT decided by a registered command: in the polar caps, the image clause of proj (|x - column centre| <= 2 - |y|, guarantee I assumed by the plane-cut harnesses of C03 / C11 / C19) and the reference '
            'expressions x = pm1 t + offset, |y| = 2 - t: both need the monotonicity / a second copy of a 53x53 float multiplier and were undecided after 40 min per harness (c17_proj_{npc,spc}_*, c17_proj_formula_{npc,spc}_*: tier extended); '
            'in the polar caps the registered tiers decide range, sign and the side of the column centre; '
            'the two round trips within 1e-14 are NOT decided by the solver (they depend on the accuracy of the actual libm, not on a contract): they are evaluated '
            'only by the native oracle when a counter-example is replayed; base_cell_from_proj_coo vs. the depth-0 hash likewise',
    assumptions=_LIBM_ASSUME,
)

# ------------------------------------------------------------------------------------------- C06 (discrete clauses)
_c06 = []
for (_d, _dl, tiers) in ((0, 0, Q), (3, 0, Q), (29, 0, Q), (0, 1, Q), (2, 2, Q), (27, 2, Q), (1, 0, T), (16, 0, T), (5, 3, T), (28, 1, T), (0, 29, T)):
    _c06.append(H('c06_allsky_d%d_dd%d' % (_d, _dl), 'k_c06_allsky(%d, %d);' % (_d, _dl), tiers=tiers, timeout=1200, mem_gb=8, unwind=14,
                  stubs=_LIBM + [('crate::nested::bmoc::BMOCBuilderUnsafe::pack', 'crate::nested::bmoc::verif_c06b::stub_pack_identity')], inputs=[('lon', 'f64'), ('lat', 'f64')], replay='c06_allsky', replay_const={'depth': _d, 'delta': _dl},
                  covers=['NaN centre'],
                  domain='depth %d, delta_depth %d: radius in {pi, next double after pi, 4, 1e300, +inf}, every double centre (incl. NaN)' % (_d, _dl)))
_c06.append(H('c06_allsky_pi_d0_dd0', 'k_c06_allsky_pi(0, 0);', tiers=Q, timeout=1200, mem_gb=8, unwind=14,
              stubs=_LIBM + [('crate::nested::bmoc::BMOCBuilderUnsafe::pack', 'crate::nested::bmoc::verif_c06b::stub_pack_identity'),
                             ('crate::nested::Layer::cone_coverage_approx_recur', 'crate::nested::verif_c06::stub_recur_nothing')], inputs=[('lon', 'f64'), ('lat', 'f64')],
              replay='c06_allsky_pi', replay_const={'depth': 0, 'delta': 0},
              domain='depth 0: radius exactly pi, every centre with lon in [0, 6.3], lat in [-pi/2, pi/2]'))
for (ds, lv, tiers) in ((0, 1, Q), (1, 1, Q), (0, 2, T), (3, 2, T)):
    B = 'crate::nested::bmoc::'
    _c06.append(H('c06_recur_d%d_l%d' % (ds, lv), 'k_c06_recur(%d, %d);' % (ds, lv), tiers=tiers, timeout=2400, mem_gb=10, unwind=26,
                  stubs=[('crate::nested::Layer::center', 'crate::nested::verif_c06::stub_center'),
                         (B + 'BMOCBuilderUnsafe::new', B + 'verif_c06b::stub_builder_new'), (B + 'BMOCBuilderUnsafe::push', B + 'verif_c06b::stub_builder_push')],
                  inputs=None, replay=None, covers=['a fully covered cell', 'a partially covered cell at the target depth'],
                  domain='real cone_coverage_approx_recur from one symbolic root cell of depth %d down %d level(s): arbitrary thresholds min<=max per level, '
                         'arbitrary distance per visited cell, symbolic probe cell' % (ds, lv)))
_c06.append(_pack_d_h('C06', 4, 2, 1, T))
_c06[-1]['mod'] = 'verif_c06b'
_c06[-1]['stubs'] = [(a, b.replace('verif_c06::', 'verif_c06b::')) for a, b in _c06[-1]['stubs']]
_c06[-1]['unwindset'] = dict((k.replace('verif_c06::', 'verif_c06b::'), v) for k, v in _c06[-1]['unwindset'].items())
_c06.append(_pack_h('C06', 4, 1, Q, timeout=1500))
_c06[-1]['mod'] = 'verif_c06b'
_c06[-1]['stubs'] = [(a, b.replace('verif_c06::', 'verif_c06b::')) for a, b in _c06[-1]['stubs']]
_c06[-1]['unwindset'] = dict((k.replace('verif_c06::', 'verif_c06b::'), v) for k, v in _c06[-1]['unwindset'].items())
PROPS['C06'] = dict(
    inject=[dict(host='src/nested/mod.rs', mod='verif_c06', parts=['props/c06.rs', 'kani/c06.rs']),
            dict(host='src/nested/bmoc.rs', mod='verif_c06b', parts=['props/c07.rs', 'kani/c07.rs'])],
    harnesses=_c06, libm=True,
    functions=['nested::cone_coverage_approx', 'nested::cone_coverage_approx_custom', 'Layer::cone_coverage_approx_internal', 'Layer::allsky_bmoc_builder',
               'Layer::cone_coverage_approx_recur', 'BMOCBuilderUnsafe::{push_all,pack,to_lower_depth,to_bmoc_packing,to_lower_depth_bmoc_packing}'],
    bounds={'quick': 'whole sky: (depth, delta) in {(0,0),(3,0),(29,0),(0,1),(2,2),(27,2)}, radius in {pi, nextafter(pi), 4, 1e300, +inf} and every centre; recursion threshold logic: '
                     'one root, 1 level below depth 0 and depth 1; pack: every valid sequence of 4 entries at depth_max 1 and of 4 depth-1 entries at depth_max 2; radius exactly pi with the recursive descent cut away (depth 0, every centre)',
            'thorough': 'adds (depth, delta) (1,0),(16,0),(5,3),(28,1),(0,29); recursion 2 levels'},
    outside='NOT decided (stated in DESIGN.md 5 C06): that `distance <= min` really means "entirely inside the cone" and the radius + 2*c2v tightness -- both need the '
            'true haversine distance and the centre-to-vertex envelope; the small-cone branch (centre cell + neighbours)',
    assumptions=_LIBM_ASSUME + ['whole-sky harnesses: BMOCBuilderUnsafe::pack is cut (identity); pack is decided by c06_pack_4_dm1',
                                'recursion harness: Layer::center replaced by a recorder, distances are arbitrary values in [0, 1] (one per visited cell)',
                                'allocator-growth model for the BMOC builder (see C07)'],
)

# ------------------------------------------------------------------------------------------- C11 (RING, any nside; plane cut)
_PLANE_CUT = lambda mod: [('crate::proj', 'crate::ring::%s::stub_proj' % mod), ('crate::unproj', 'crate::ring::%s::stub_unproj' % mod)]
import os as _os
_C11_ROLE = _os.environ.get('VERIF_C11_ROLE', '255')   # 255 = every image point (0 / 1 = outside / inside the role of the former finding F4)
_c11 = []
for ns in (1, 2, 3, 4, 5, 6, 7, 8, 13, 100, 1000003, (1 << 29) - 1, 1 << 29):
    small = ns <= 13
    tq = Q if ns in (1, 2, 3, 5) else T
    for band, bn in ((0, 'npc'), (1, 'eqr'), (2, 'spc')):
        # nside 1, 2: one harness per latitude band (quick); other nside: additionally split by base-cell column (thorough)
        for quad in ((255,) if ns <= 2 else (0, 1, 2, 3)):
            _c11.append(H('c11_point_%s_n%d%s' % (bn, ns, '' if quad == 255 else '_q%d' % quad), 'k_c11_point(%d, %s, %d, %d);' % (ns, _C11_ROLE, band, quad),
                          tiers=(Q if (ns == 1 and band != 1) else T), timeout=(1200 if (ns == 1 and band != 1) else 2400), mem_gb=8, unwind=3, stubs=_PLANE_CUT('verif_c11'),
                          inputs=[('x', 'f64'), ('y', 'f64')], replay='c11_pullback', replay_const={'nside': ns},
                          covers=['last base cell column', 'first base cell column'] if quad == 255 else ['east part of the column', 'west part of the column'],
                          domain='nside %d: every double point of the HEALPix image with y in the %s band%s, polar base-cell borders included' % (
                              ns, bn, '' if quad == 255 else ' and x in [%d, %d%s' % (2 * quad, 2 * quad + 2, ']' if quad == 3 else ')'))))
    if small or ns == 100:
        # nside >= 2: split in three ranges of cell numbers (the unsplit harness takes 4-13 min)
        for part in ((255,) if ns == 1 else (0, 1, 2)):
            _c11.append(H('c11_center_n%d%s' % (ns, '' if part == 255 else '_p%d' % part), 'k_c11_center(%d, %d);' % (ns, part), tiers=(Q if ns in (1, 2, 3) else T), timeout=1200 if ns <= 3 else 2400,
                          mem_gb=8, unwind=3, stubs=_PLANE_CUT('verif_c11'),
                          inputs=[('h', 'u64')], replay='c11_center', replay_const={'nside': ns}, covers=['last cell', 'last cell of the part'],
                          domain='nside %d: every cell number%s' % (ns, '' if part == 255 else ' of third %d of the range' % part)))
    _c11.append(H('c11_order_n%d' % ns, 'k_c11_order(%d);' % ns, tiers=((Q if ns == 1 else T) if small else T), timeout=2400, mem_gb=8, unwind=3,
                  inputs=[('r', 'u64')], replay='c11_order', replay_const={'nside': ns}, covers=['last pair'],
                  domain='nside %d: every pair of consecutive cell numbers' % ns))
_c11.append(H('c11_seam_n2', 'k_c11_point(2, 1, 255, 255);', tiers=T, timeout=2400, mem_gb=8, unwind=3, stubs=_PLANE_CUT('verif_c11'),
              inputs=[('x', 'f64'), ('y', 'f64')], replay='c11_pullback', replay_const={'nside': 2}, covers=[],
              domain='nside 2, image points on / within 2^-40 of a polar base-cell border or cap-base corner (the role of the repaired finding F4) alone'))
for w in (0, 1, 2, 3):
    _c11.append(H('c11_guard_%d' % w, 'k_c11_guard(3, %d);' % w, tiers=Q, timeout=600, mem_gb=6, should_panic=True, unwind=3, stubs=_LIBM,
                  inputs=[('h', 'u64'), ('lon', 'f64'), ('lat', 'f64')], replay='c11_guard', replay_const={'nside': 3, 'which': w},
                  never=['guard bypassed'], domain='nside 3: every out-of-range cell number / latitude'))
PROPS['C11'] = dict(
    inject=[dict(host='src/ring/mod.rs', mod='verif_c11', parts=['props/c17.rs', 'props/c11.rs', 'kani/c11.rs'])],
    harnesses=_c11, libm=True,
    functions=['ring::hash', 'ring::hash_with_dxdy', 'ring::hash_with_dldh', 'ring::deal_with_1x1_box', 'ring::dldh_to_dxdy', 'ring::center_of_projected_cell',
               'ring::polar_cap_ring_index', 'ring::sph_coo', 'ring::center', 'ring::vertices', 'ring::check_hash', 'ring::triangular_number_x4'],
    bounds={'quick': 'every image point of the polar bands (range, offsets, containment; polar base-cell borders included) at nside 1; every cell (centre round trip, sph_coo) at nside 1, 2, 3; every consecutive pair (order) at nside 1; guards at nside 3 (each harness < 8 min: the quick command is stopped after 15 min)',
            'thorough': 'adds the equatorial band at nside 1, all bands at nside 2 (and the polar base-cell borders alone), image points of the polar bands at nside 3 split by base-cell column (20-30 min each; the equatorial band at nside 3 and all bands at nside 5 were undecided after 40 min or close to it: tier extended), centres at nside 4, 5, 7, 8, order at nside 2, 3, 4, 5, 7, 8, 13, 2^29-1, 2^29 (other nside: tier extended; harnesses that exceed a cap are reported UNDECIDED)'},
    outside='other nside values; the composition with the real proj / unproj (the plane cut): decided separately in C17 (image, reference formulae) and evaluated by the native oracle on replay',
    assumptions=_LIBM_ASSUME + ['plane cut: proj returns an arbitrary point of the HEALPix image (guarantee I of C17, slack 2^-50), unproj is the identity on the plane with its domain assertion kept'],
)

# ------------------------------------------------------------------------------------------- C03 (plane cut)
_PLANE_CUT_N = lambda mod: [('crate::proj', 'crate::nested::%s::stub_proj' % mod), ('crate::unproj', 'crate::nested::%s::stub_unproj' % mod),
                            ('crate::nested::Layer::d0h_lh_in_d0c', 'crate::nested::%s::stub_d0h_lh_plane' % mod)]
_C03_INTERIOR = lambda: _PLANE_CUT_N('verif_c03') + [('crate::nested::Layer::hash_with_dxdy_in_base_cell_frame', 'crate::nested::verif_c03::stub_border_path')]
def _c03_us(d):
    return {'verif_common::*': max(6, d + 1), 'nested::verif_c03::*': 6, 'compass_point::*': 6, 'nested::Layer::vertices_map#*': 6,
            'nested::Layer::path_along_cell_side_internal#*': 6, 'nested::Layer::path_along_cell_edge#*': 6, 'nested::Layer::grid#*': 6}


_c03 = []
for _d in range(30):
    for part, pn in ((0, 'centre'), (1, 'offset'), (2, 'vertices')):
        # the offset round trip (sph_coo then hash_with_dxdy of an arbitrary interior offset) needs real-arithmetic reasoning on the
        # scaled coordinates: 25+ min at depth 0, thorough tier only
        tq = (Q if _d in (0, 1, 2) else T) if part != 1 else (T if _d in (0, 1) else X)   # depth 29: 35+ min per harness, thorough
        _c03.append(H('c03_%s_d%d' % (pn, _d), 'k_c03_cell(%d, %d);' % (_d, part), tiers=tq, timeout=(2400 if _d < 17 else 4800), mem_gb=(5 if _d < 17 else 8), unwind=3, unwindset=_c03_us(_d), stubs=_C03_INTERIOR(),
                      inputs=[('h', 'u64'), ('dxk', 'u32'), ('dyk', 'u32')], replay='c03_cell', replay_const={'depth': _d},
                      covers=['cell at the north pole', 'west half of base cell 4 (negative x before wrapping)'] if _d > 0 else ['cell at the north pole'],
                      domain='depth %d: every cell%s (plane cut): %s' % (_d, ', offsets k/1024 with k symbolic in 1..=1023' if part == 1 else '', pn)))
    _c03.append(H('c03_path_d%d' % _d, 'k_c03_path(%d);' % _d, tiers=T if _d in (0, 2, 29) else X, timeout=2400, mem_gb=10, unwind=3, unwindset=_c03_us(_d),
                  stubs=_C03_INTERIOR(), inputs=[('h', 'u64'), ('t', 'usize'), ('cw', 'bool'), ('sk', 'u8')], replay='c03_cell',
                  replay_const={'depth': _d, 'dxk': 512, 'dyk': 512}, covers=['last grid point', 'first path point, clockwise'],
                  domain='depth %d: every cell, every point of the 12-point edge path (both directions, 4 starting vertices) and of the 3x3 grid' % _d))
    for band, bn in ((0, 'npc'), (1, 'eqr'), (2, 'spc')):
        for part, pn in ((0, 'inv'), (1, 'border')):
            for b in ((0, 1, 2, 3, 255) if band == 0 else (8, 9, 10, 11, 255) if band == 2 else range(12)):
                bname = 'other' if b == 255 else 'b%d' % b
                _c03.append(H('c03_%s_%s_%s_d%d' % (pn, bn, bname, _d), 'k_c03_image(%d, %d, %d, %d);' % (_d, band, b, part),
                              # border classes take 5-14 min each: one north and one south class at depth 0 in the quick tier
                              tiers=(((Q if (_d == 0 and b in (0, 8) and band != 1) else T) if _d in (0, 1, 2) else X) if part == 1 else (T if _d == 0 else X)),
                              timeout=(1200 if (part == 1 and _d == 0) else 2400 if part == 1 else 3600), mem_gb=6, unwind=3,
                              unwindset=_c03_us(_d), stubs=_PLANE_CUT_N('verif_c03'), inputs=[('x', 'f64'), ('y', 'f64')], replay='c03_pullback', replay_const={'depth': _d},
                              covers=(['a point of the band is mapped to the base cell'] if (b != 255 and part == 0) else []),
                              domain='depth %d: every double point of the HEALPix image (x in [0, 8]) with y in the %s band that hash_with_dxdy maps %s, %s' % (
                                  _d, bn, 'outside the 4 base cells of the cap (expected: none)' if b == 255 else 'into base cell %d' % b,
                                  'offsets in [0, 1): sph_coo gives the point back' if part == 0 else 'an offset equal to 1 or below 0: the cell contains the point (plane oracle)')))
for _d in range(30):
    for band, bn in ((0, 'npc'), (1, 'eqr'), (2, 'spc')):
        _c03.append(H('c03_range_%s_d%d' % (bn, _d), 'k_c03_range(%d, %d);' % (_d, band), tiers=Q if (_d in (0, 29) and band != 2) else T, timeout=2400, mem_gb=5, unwind=3,   # south band: 13-17 min
                      unwindset=_c03_us(_d), stubs=_PLANE_CUT_N('verif_c03'), inputs=[('x', 'f64'), ('y', 'f64')], replay='c03_pullback', replay_const={'depth': _d},
                      covers=['x = 4 (seam or base cell corner line)', 'x = 8'],
                      domain='depth %d: every double point of the HEALPix image (x in [0, 8]) with y in the %s band: cell number in range, offsets in [0, 1]' % (_d, bn)))
for w in range(9):
    _c03.append(H('c03_guard_%d' % w, 'k_c03_guard(2, %d);' % w, tiers=Q, timeout=600, mem_gb=4, should_panic=True, unwind=5, stubs=_LIBM,
                  inputs=[('h', 'u64')], replay='c03_guard', replay_const={'depth': 2, 'which': w}, never=['guard bypassed'],
                  domain='depth 2: every cell number >= 192, accessor %d' % w))
PROPS['C03'] = dict(
    inject=[dict(host='src/nested/mod.rs', mod='verif_c03', parts=['props/c03.rs', 'kani/c03.rs'])],
    harnesses=_c03, libm=True,
    functions=['Layer::center_of_projected_cell', 'Layer::center', 'Layer::sph_coo', 'Layer::vertex', 'Layer::vertices', 'Layer::vertices_map',
               'Layer::path_along_cell_side', 'Layer::path_along_cell_edge', 'Layer::grid', 'Layer::hash_with_dxdy', 'Layer::shift_rotate_scale',
               'discretize', 'Layer::depth0_bits', 'Layer::build_hash', 'Layer::check_hash'],
    bounds={'quick': 'cell centres (plane oracle, hash back with offsets 0.5) and vertices (three accessors) at depths 0, 1, 2; every image point of the north and equatorial bands: cell number in range and '
                     'offsets in [0, 1] up to rounding, at depths 0 and 29; image points with an offset equal to 1 or below 0 (polar base-cell borders, poles, rounding) mapped into base cells 0 and 8 at depth 0: the cell contains the point; guards at depth 2 (each harness < 6 min: the quick command is stopped after 15 min)',
            'thorough': 'adds centres / vertices at depths 3, 8 and vertices at depths 17, 29; paths and grid at depths 0, 2; the range clause for the south band and at depths 1, 2, 8, 16, 28; image points with an offset equal '
                        'to 1 or below 0 (polar base-cell borders, poles, rounding): the cell contains the point, for every band x base cell of the result at depths 0, 1 (46 classes). Undecided after 40 min each in the build '
                        'session and therefore tier extended: centres at depths 17, 29, paths at depth 29, the interior-offset round trip and the sph_coo inverse for generic offsets'},
    outside='NOT decided by a registered command: "sph_coo inverts hash_with_dxdy" for generic offsets and the interior-offset round trip (real-arithmetic reasoning on the scaled coordinates: undecided after 40 min, tier extended; evaluated by the native oracle on replay and in the replay self-test); quick tier: containment of border positions in other base cells, and paths (thorough); the composition with the real proj / unproj within ulps of a cell border and the 1e-13 rad figure near the poles (they depend on the actual libm values; C17 bounds the pair '
            'separately); the clause "the cell given by hash" (hash_v2 vs hash_with_dxdy) is evaluated by the native oracle on replay only; other path segment counts',
    assumptions=_LIBM_ASSUME + ['plane cut: proj returns an arbitrary point of the HEALPix image (guarantee I of C17, slack 2^-50), unproj is the identity on the plane with its domain assertion kept',
                                'Layer::d0h_lh_in_d0c (called by hash_with_dxdy on / next to the polar base-cell borders) returns any base cell and in-base-cell coordinates placing the same plane point within 2^-46 (lemmas R and P of C01)'],
)

# ------------------------------------------------------------------------------------------- C19 (cut at hash_with_dxdy)
_c19 = []
for _d in range(30):
    for reg in (0, 1):
        for bits in (4, 8):
            # 17 x 17 lattice: quick at depths 0, 1, 2, 29; 257 x 257 lattice: thorough (20-40 min per harness)
            tq = (Q if _d in (0, 1) else T) if bits == 4 else T   # depth 2: 11 min, corner_d29: 14 min, any_d29: 40+ min -> thorough
            _c19.append(H('c19_%s_d%d%s' % ('any' if reg == 0 else 'corner', _d, '' if bits == 4 else '_fine'), 'k_c19_cell(%d, %d, %d);' % (_d, reg, bits), tiers=tq,
                          timeout=(2400 if _d < 17 else 4800) if bits == 4 else 3600, mem_gb=10,
                          unwind=4, unwindset={'verif_common::*': max(6, _d + 1), 'nested::verif_c19::*': 10, 'compass_point::*': 10},
                          stubs=[('crate::nested::Layer::hash_with_dxdy', 'crate::nested::verif_c19::stub_hash_with_dxdy')],
                          inputs=[('h', 'u64'), ('a', 'u16'), ('b', 'u16')], replay='c19_cell',
                          replay_const={'depth': _d}, covers=['north quadrant', 'west quadrant', 'cell centre'],
                          domain='depth %d: every cell%s x every offset pair (a/%d, b/%d), a, b in 0..=%d' % (
                              _d, '' if reg == 0 else ' lacking a S / E / N / W neighbour', 1 << bits, 1 << bits, 1 << bits)))
PROPS['C19'] = dict(
    inject=[dict(host='src/nested/mod.rs', mod='verif_c19', parts=['props/c19.rs', 'kani/c19.rs'])],
    harnesses=_c19,
    functions=['Layer::bilinear_interpolation', 'Layer::neighbours', 'MainWindMap::get'],
    bounds={'quick': 'depths 0, 1: every cell x the 17 x 17 lattice of offsets k/16 (incl. 0, 0.5, 1); separately restricted to the cells lacking a cardinal neighbour', 'thorough': 'adds depths 2, 3 (every cell), the cells lacking a cardinal neighbour at depths 2, 3, 8, 17, 29, and depths 0, 1 on the 257 x 257 lattice (every cell at depths 8, 17, 29 was undecided after 40 min: tier extended with the other depths)'},
    outside='offsets that are not multiples of 1/16 (quick) / 1/256 (thorough) (arbitrary doubles make the 32 weight products of the code a 45 M clause instance); the computation of the cell and '
            'offsets from the position (hash_with_dxdy, decided by C03)',
    assumptions=['cut at Layer::hash_with_dxdy: it returns the cell number and offsets chosen by the harness (every cell in range, offsets in [0, 1] on the 1/256 lattice)',
                 'Layer::neighbours is the adjacency oracle (decided against plane geometry by C04)'],
)

# ------------------------------------------------------------------------------------------- tier curation
# 'thorough' is what was run to a verdict on the unchanged tree in the build session (section 10.5 of DESIGN.md); the other members
# of each parameterised family stay available as tier 'extended' (./check <id> --tier extended [--only <filter>]): same templates,
# other depths / shapes, not run to a verdict in the build session and therefore not part of any registered command.
import re as _re
X = ('extended',)
_KEEP_T = {
    'C01': r'^c01_e2e_d(4|8|16|17|29)$|^c01_r_npc_',
    'C02': r'.',
    'C03': r'^c03_(centre|vertices)_d(3|8|17|29)$|^c03_offset_d(0|1)$|^c03_path_d(0|2|29)$|^c03_border_\w+_d(0|1)$|^c03_inv_(npc_b0|eqr_b5|spc_b10)_d0$|^c03_range_\w+_d(0|1|2|8|16|28|29)$',
    'C04': r'^c04_pair_d(4|8)$',
    'C06': r'.',
    'C07': r'^(?!c07_(or|xor)_(1_2|2_1)_dm11)',
    'C08': r'^(?!c08_(or_2_1|xor_1_2)_dm11)',
    'C09': r'^(?!c09_views_\w+_3_dm1$)(?!c09_views_array_)',
    'C10': r'_d(2|3)$|^c10_\w+_eqr_d(5|8|16|17|28)$|^c10_ringends_[ns]_(d26_k67108800|d29_k536870848|d29_k402653184)$',
    'C11': r'^c11_order_n(2|3|4|5|7|8|13|536870911|536870912)$|^c11_center_n(4|5|7|8)_p\d$|^c11_point_(npc|spc)_n3_q\d$|^c11_point_\w+_n(1|2)$|^c11_seam_n2$',
    'C14': r'^c14_(internal|parts|dirs)_',
    'C15': r'^(?!c15_fixed_)|^c15_fixed_(d1_cap2_m2)$',
    'C16': r'.',
    'C17': r'.',
    'C18': r'.',
    'C19': r'^c19_corner_d(2|3|8|17|29)$|^c19_any_d(2|3)$|_d(0|1)_fine$',
}
# thorough-only harnesses that hit their cap (40 min / memory) when the thorough tiers were run in the build session: tier extended
_UNDECIDED_IN_BUILD = {
    'c03_centre_d17', 'c03_centre_d29', 'c03_inv_eqr_b5_d0', 'c03_inv_npc_b0_d0', 'c03_inv_spc_b10_d0', 'c03_offset_d0', 'c03_offset_d1', 'c03_path_d29',
    'c04_pair_d16', 'c04_pair_d17', 'c04_pair_d24', 'c07_identity_not_not_1_dm0', 'c07_or_2_1_dm10', 'c07_xor_1_2_dm01', 'c08_or_2_1_dm10',
    'c09_views_array_1_dm2', 'c09_views_array_2_dm1', 'c14_external_d0_dd1', 'c15_fixed_d1_cap2_m2',
    'c17_proj_formula_npc_neg', 'c17_proj_formula_npc_pos', 'c17_proj_formula_spc_neg', 'c17_proj_formula_spc_pos',
    'c17_proj_npc_neg', 'c17_proj_npc_pos', 'c17_proj_spc_neg', 'c17_proj_spc_pos',
    'c11_point_eqr_n3_q0', 'c11_point_eqr_n3_q2', 'c11_point_eqr_n5_q0', 'c11_point_eqr_n5_q1', 'c11_point_eqr_n5_q2', 'c11_point_eqr_n5_q3', 'c11_point_spc_n5_q0', 'c11_point_spc_n3_q0',
}
for _pid, _p in PROPS.items():
    _rx = _re.compile(_KEEP_T.get(_pid, '.'))
    for _h in _p['harnesses']:
        if _h['tiers'] == T and (not _rx.search(_h['name']) or _h['name'] in _UNDECIDED_IN_BUILD):
            _h['tiers'] = X
        # a thorough-only harness gets at most 40 min (beyond that it is reported UNDECIDED); longer caps only in tier extended
        if _h['tiers'] == T and _h['timeout'] > 2400:
            _h['timeout'] = 3600 if '_r_npc_' in _h['name'] else 2400   # lemma R in the north cap: 25 min unloaded, undecided after 40 min under load
