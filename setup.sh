#!/bin/sh
# Offline set-up: builds the native replay binary (dev + release) against /repo's working tree.
set -e
cd "$(dirname "$0")/replay"
export CARGO_NET_OFFLINE=true
cargo build --offline 2>&1 | tail -2
cargo build --offline --release 2>&1 | tail -2
echo "setup ok"
