#!/bin/sh
# usage: try_mutant.sh <PID> <worktree> <patch> [extra check args]   -- runs the check against a mutated scratch worktree (never /repo)
pid=$1; wt=$2; patch=$3; shift 3
tag=$(basename $(dirname $patch))-$pid
git -C $wt checkout -q -- src && git -C $wt apply $patch || { echo "cannot apply $patch"; exit 3; }
VERIF_REPO=$wt VERIF_TAG=$tag /verif/check $pid "$@" > /tmp/mutant-$tag.log 2>&1
rc=$?
git -C $wt checkout -q -- src
echo "MUTANT $tag exit=$rc $(grep -c '^VIOLATION' /tmp/mutant-$tag.log) violation line(s)"
grep -E "^VIOLATION|^  harness|^INCONCLUSIVE" /tmp/mutant-$tag.log | head -6
exit $rc
