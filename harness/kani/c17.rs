const FOUR_OVER_PI_K: f64 = 4_f64 / std::f64::consts::PI;
const SQRT6_K: f64 = 2.44948974278317809819_f64;
const PI_OVER_FOUR_K: f64 = 0.25_f64 * std::f64::consts::PI;

fn k_c17_proj() {
  let lon: f64 = kani::any();
  let lat: f64 = kani::any();
  kani::assume(lon >= -25.2 && lon <= 25.2 && lat >= -C_HALF_PI && lat <= C_HALF_PI);
  kani::cover!(lat > C_T && lon < -7.0, "north cap, negative second turn");
  kani::cover!(lat == -C_HALF_PI, "south pole");
  p_c17_proj_range(lon, lat);
}

/// agreement with the reference formulae, from the same libm values. In the polar caps the comparison involves a second copy
/// of the product (x - centre) * t; two symbolic 53x53-bit multipliers are an equivalence-checking problem SAT does not
/// solve, so the polar clause is decided for cosines with at most 10 significant bits (every longitude, every facet).
fn k_c17_proj_ref() {
  let lon: f64 = kani::any();
  let lat: f64 = kani::any();
  kani::assume(lon >= -25.2 && lon <= 25.2 && lat >= -C_HALF_PI && lat <= C_HALF_PI);
  let (x, y) = hp::proj(lon, lat);
  let xa = f64::from_bits(lon.to_bits() & 0x7FFF_FFFF_FFFF_FFFF) * FOUR_OVER_PI_K;
  let x8 = xa - 8.0 * ((xa / 8.0) as u64 as f64);
  let ax = f64::from_bits(x.to_bits() & 0x7FFF_FFFF_FFFF_FFFF);
  let alat = f64::from_bits(lat.to_bits() & 0x7FFF_FFFF_FFFF_FFFF);
  let tol = 1.4210854715202004e-14;   // 2^-46
  if alat <= C_T {
    let yr = lat.sin() * 1.5;
    let mut dx = ax - x8;
    if dx > 4.0 { dx -= 8.0; }
    if dx < -4.0 { dx += 8.0; }
    assert!(dx <= tol && dx >= -tol && (y - yr) <= tol && (y - yr) >= -tol, "C17: proj differs from the reference formulae (equatorial region)");
  } else {
    let c = (alat / 2.0 + PI_OVER_FOUR_K).cos();
    let t = SQRT6_K * c;
    let q = (x8 / 2.0) as u64 as f64;
    let xm2 = x8 - 2.0 * q;
    let xr = (2.0 * q + 1.0) + (xm2 - 1.0) * t;
    let yr = if lat > 0.0 { 2.0 - t } else { t - 2.0 };
    let mut dx = ax - xr;
    if dx > 4.0 { dx -= 8.0; }
    if dx < -4.0 { dx += 8.0; }
    let narrow = (c.to_bits() & ((1u64 << 43) - 1)) == 0;
    kani::cover!(narrow && xm2 != 0.0 && lat < 0.0, "polar clause reached (south)");
    if xm2 != 0.0 && narrow {
      assert!(dx <= tol && dx >= -tol && (y - yr) <= tol && (y - yr) >= -tol, "C17: proj differs from the reference formulae (polar cap)");
    }
  }
}

fn k_c17_unproj() {
  let x: f64 = kani::any();
  let y: f64 = kani::any();
  kani::assume(x >= -8.0 && x <= 8.0 && y >= -2.0 && y <= 2.0);
  kani::cover!(y > 1.9999999999999 && x < 0.0, "next to the north pole, negative x");
  kani::cover!(y == -1.0, "south transition");
  p_c17_unproj_range(x, y);
}

fn k_c17_base_cell() {
  let x: f64 = kani::any();
  let y: f64 = kani::any();
  kani::assume(x >= -8.0 && x < 8.0 && y >= -2.0 && y <= 2.0);
  kani::cover!(y == 2.0, "north pole");
  kani::cover!(y == 0.0 && x == 1.0, "corner shared by 4 base cells");
  kani::cover!(x < 0.0, "negative x");
  p_c17_base_cell(x, y);
}

fn k_c17_guard(which: u8) {
  let a: f64 = kani::any();
  let b: f64 = kani::any();
  if which == 0 { kani::assume(!(b >= -C_HALF_PI && b <= C_HALF_PI)); let _ = hp::proj(a, b); }
  else { kani::assume(!(b >= -2.0 && b <= 2.0)); let _ = hp::unproj(a, b); }
  kani::cover!(true, "guard bypassed");
}
