//! Validation of the libm contracts of harness/common/libm.rs against the platform libm, and self-test of the
//! native reference oracle on the unchanged crate (sampling: this validates assumptions, it decides no property).
use crate::common::*;

const PI: f64 = std::f64::consts::PI;
const HALF_PI: f64 = 0.5 * PI;
const T: f64 = 0.72972765622696636344_f64;
const TWO_THIRD_UP: f64 = 0.666666666666667_f64;
const A: f64 = 1.1502619915109311_f64;
const INV_SQRT6_UP: f64 = 0.40824829046386396_f64;
const T_UP: f64 = 0.7297276562269668_f64;
const INV_SQRT6_2: f64 = 0.4082482904638632_f64;
const A6: f64 = 1.1502619915109302_f64;
const TINY: f64 = 2.7755575615628914e-17;

struct Rng(u64);
impl Rng {
  fn next(&mut self) -> u64 { self.0 ^= self.0 << 13; self.0 ^= self.0 >> 7; self.0 ^= self.0 << 17; self.0 }
  fn unit(&mut self) -> f64 { (self.next() >> 11) as f64 / (1u64 << 53) as f64 }
}

fn nudge(x: f64, k: i64) -> f64 { f64::from_bits((x.to_bits() as i64).wrapping_add(k) as u64) }

fn check_sin(x: f64) {
  let s = x.sin();
  assert!(s >= -1.0 && s <= 1.0, "libm contract: sin range at {}", x);
  if x == 0.0 { assert!(s.to_bits() == x.to_bits(), "libm contract: sin(+-0)"); }
  if x.abs() <= PI && x > 0.0 { assert!(s > 0.0, "libm contract: sin sign at {}", x); }
  if x.abs() <= PI && x < 0.0 { assert!(s < 0.0, "libm contract: sin sign at {}", x); }
  if x.abs() < 1.0 { assert!(s.abs() <= x.abs(), "libm contract: |sin x| <= |x| at {}", x); }
  if x.abs() <= T { assert!(s.abs() <= TWO_THIRD_UP, "libm contract: sin on [-T, T] at {}", x); }
  assert!((-x).sin().to_bits() == (-s).to_bits() || s == 0.0, "libm: sin odd");
}
fn check_cos(x: f64) {
  let c = x.cos();
  assert!(c >= -1.0 && c <= 1.0, "libm contract: cos range at {}", x);
  assert!(c.to_bits() == (-x).cos().to_bits(), "libm contract: cos even at {}", x);
  if x.abs() <= HALF_PI { assert!(c >= TINY, "libm contract: cos >= 2^-55 on [-pi/2, pi/2] at {}", x); }
  if x.abs() >= A && x.abs() <= HALF_PI { assert!(c <= INV_SQRT6_UP, "libm contract: cos on [A, pi/2] at {}", x); }
  // A0 = fl(fl(next(T) / 2) + pi/4), the smallest argument proj evaluates in a polar cap: cos <= fl(1/sqrt 6) there
  // (true value at A0: fl(1/sqrt 6) - 2.1 ulp; cos decreases), so that SQRT6 * cos rounds to <= 1
  if x.abs() >= 1.1502619915109316 && x.abs() <= HALF_PI {
    assert!(c <= 0.4082482904638631, "libm contract: cos on [A0, pi/2] at {}", x);
    assert!(2.44948974278317809819_f64 * c <= 1.0, "libm contract: SQRT6 * cos <= 1 on [A0, pi/2] at {}", x);
  }
}
fn check_asin(z: f64) {
  let r = z.asin();
  if z >= -1.0 && z <= 1.0 {
    assert!(r >= -HALF_PI && r <= HALF_PI, "libm contract: asin range at {}", z);
    if z == 0.0 { assert!(r.to_bits() == z.to_bits(), "libm contract: asin(+-0)"); }
    if z > 0.0 { assert!(r > 0.0, "libm contract: asin sign"); }
    if z < 0.0 { assert!(r < 0.0, "libm contract: asin sign"); }
    if z.abs() <= TWO_THIRD_UP { assert!(r.abs() <= T_UP, "libm contract: asin on [-2/3, 2/3] at {}", z); }
  } else { assert!(r != r, "libm contract: asin NaN outside [-1, 1]"); }
}
fn check_acos(z: f64) {
  let r = z.acos();
  if z >= -1.0 && z <= 1.0 {
    assert!(r >= 0.0 && r <= PI, "libm contract: acos range at {}", z);
    if z >= 0.0 && z <= INV_SQRT6_2 { assert!(r >= A6 && r <= HALF_PI, "libm contract: acos on [0, 1/sqrt6] at {}", z); }
  } else { assert!(r != r, "libm contract: acos NaN outside [-1, 1]"); }
}

pub fn validate(seed: u64) {
  let specials = [0.0, -0.0, T, -T, HALF_PI, -HALF_PI, PI, -PI, A, -A, 1.1502619915109316, -1.1502619915109316, 1.0, -1.0, TWO_THIRD_UP, 2.0 / 3.0, INV_SQRT6_UP, 0.4082482904638631,
                  T / 2.0 + PI / 4.0, 1e-300, -1e-300, 5e-324, 25.2, -25.2, 1e-8, 0.5, 2.0, 1.0000000000000002, f64::INFINITY];
  for &s in specials.iter() {
    for k in -16i64..=16 {
      let x = nudge(s, k);
      if x.is_finite() { check_sin(x); check_cos(x); check_asin(x); check_acos(x); }
    }
  }
  let mut r = Rng(seed.wrapping_mul(0x9E3779B97F4A7C15) | 1);
  for _ in 0..2_000_000u32 {
    let u = r.unit();
    let x = (u - 0.5) * 52.0;
    check_sin(x); check_cos(x);
    let z = (r.unit() - 0.5) * 2.2;
    check_asin(z); check_acos(z);
    let e = (r.unit() * 600.0 - 300.0).exp2() * (if r.next() & 1 == 0 { 1.0 } else { -1.0 });
    check_sin(e); check_cos(e); check_asin(e); check_acos(e);
    let y = (r.unit() - 0.5) * PI;          // latitude-like arguments, both polar-cap forms
    check_cos(y / 2.0 + PI / 4.0); check_cos(y / 2.0 - PI / 4.0);
  }
}

/// Self-test of the native reference oracle on the crate as it is: every sampled position must be inside its cell at all depths.
pub fn oracle_selftest(seed: u64) {
  let mut r = Rng(seed.wrapping_mul(0x9E3779B97F4A7C15) | 1);
  let lats = [0.0, T, -T, HALF_PI, -HALF_PI, nudge(T, 1), nudge(T, -1), 1e-300, 1.2, -1.2, 1.5707963, -1.5707963];
  let lons = [0.0, PI / 4.0, PI / 2.0, PI, 1.5 * PI, 2.0 * PI, nudge(2.0 * PI, -1), 7.0, -1.0, -PI / 2.0, 12.0, -20.0, 25.0];
  for &la in lats.iter() { for &lo in lons.iter() { for k in -2i64..=2 { crate::c01::p_c01_all_depths(nudge(lo, k), la); for &d in [0u8, 1, 7, 29].iter() { crate::c03::p_c03_point(d, nudge(lo, k), la); } } } }
  for _ in 0..200_000u32 {
    let lon = (r.unit() - 0.5) * 50.0;
    let z = r.unit() * 2.0 - 1.0;
    let lat = z.asin();
    crate::c01::p_c01_all_depths(lon, lat);
    crate::c17::p_c17_native(lon, lat);
    let (x, y) = ((r.unit() - 0.5) * 16.0, (r.unit() - 0.5) * 4.0);
    crate::c17::p_c17_native_plane(x, y);
    crate::c17::p_c17_base_cell(x, y);
    let ns = [1u32, 2, 3, 5, 7, 100, 1000003, (1 << 29) - 1][(r.next() % 8) as usize];
    { let (px, py) = cdshealpix::proj(lon, lat); let pxa = if px < 0.0 { px + 8.0 } else { px }; { let _ = (pxa, py); crate::c11::p_c11_point(ns, lon, lat); } }
    let d = (r.next() % 30) as u8;
    crate::c03::p_c03_point(d, lon, lat);
    crate::c19::p_c19_point(d, lon, lat);
    let h = r.next() % (12u64 << (2 * d as u32));
    crate::c03::p_c03_cell(d, h, 1 + (r.next() % 1023) as u32, 1 + (r.next() % 1023) as u32);
  }
  for d in 0u8..=3 { for h in 0..(12u64 << (2 * d as u32)) { crate::c03::p_c03_cell(d, h, 1, 1023); crate::c03::p_c03_cell(d, h, 1023, 512); } }
  for ns in 1u32..=9 {
    for h in 0..(12 * ns as u64 * ns as u64) { crate::c11::p_c11_center(ns, h); }
    for k in [0usize, 1, 2, 3, 4, 5, 6, 7, 8].iter() { for la in lats.iter() { if la.abs() < 1.57 { crate::c11::p_c11_neighbourhood(ns, 0.25 * PI * *k as f64, *la, 2); } } }
  }
}


/// Scan of the role of finding F4 (polar-cap seams and cap-base corners) with the native oracle: counts the failing positions.
pub fn f4_scan(_seed: u64) {
  let mut bad = 0u64;
  let mut total = 0u64;
  let mut first: Vec<String> = Vec::new();
  let nsides = [1u32, 2, 3, 4, 5, 6, 7, 8, 9, 13, 100, 1000003, (1 << 29) - 1, 1 << 29];
  for &ns in nsides.iter() {
    for k in -8i64..=12 {
      let l0 = 0.25 * PI * k as f64;
      for step in 0..=60 {
        let a = T + (HALF_PI - T) * (step as f64 / 60.0);
        for &la in [a, -a, nudge(a, 1), nudge(-a, 1), nudge(a, -1)].iter() {
          if la.abs() > HALF_PI { continue; }
          for dk in -3i64..=3 {
            let lo = nudge(l0, dk);
            total += 1;
            let r = std::panic::catch_unwind(|| crate::c11::p_c11_point(ns, lo, la));
            if let Err(e) = r {
              bad += 1;
              if first.len() < 12 {
                let msg = if let Some(s) = e.downcast_ref::<String>() { s.clone() } else if let Some(s) = e.downcast_ref::<&str>() { s.to_string() } else { "panic".to_string() };
                first.push(format!("nside {} lon {:e} lat {:e}: {}", ns, lo, la, &msg[..msg.len().min(160)]));
              }
            }
          }
        }
      }
    }
  }
  println!("f4_scan: {} failing of {} positions", bad, total);
  for m in first.iter() { println!("  {}", m); }
  assert!(bad == 0, "f4_scan: {} failing positions", bad);
}


/// Scan of hash_with_dxdy (nested) on and next to the base-cell borders of the polar caps, the poles and the cap-base corners.
pub fn c03_scan(_seed: u64) {
  let mut bad = 0u64;
  let mut total = 0u64;
  let mut first: Vec<String> = Vec::new();
  for &d in [0u8, 1, 2, 5, 13, 29].iter() {
    for k in -8i64..=12 {
      let l0 = 0.25 * PI * k as f64;
      let mut lats: Vec<f64> = Vec::new();
      for step in 0..=40 { let a = T + (HALF_PI - T) * (step as f64 / 40.0); lats.push(a); lats.push(-a); }
      for j in 0..6 { lats.push(nudge(HALF_PI, -j)); lats.push(nudge(-HALF_PI, -j)); lats.push(nudge(T, j - 3)); lats.push(nudge(-T, j - 3)); }
      lats.push(0.0); lats.push(0.3); lats.push(-0.3);
      for &la0 in lats.iter() {
        for dl in -1i64..=1 {
          let la = nudge(la0, dl);
          if la.abs() > HALF_PI { continue; }
          for dk in -3i64..=3 {
            let lo = nudge(l0, dk);
            total += 1;
            let r = std::panic::catch_unwind(|| crate::c03::p_c03_point(d, lo, la));
            if let Err(e) = r {
              bad += 1;
              if first.len() < 14 {
                let msg = if let Some(s) = e.downcast_ref::<String>() { s.clone() } else if let Some(s) = e.downcast_ref::<&str>() { s.to_string() } else { "panic".to_string() };
                first.push(msg[..msg.len().min(300)].to_string());
              }
            }
          }
        }
      }
    }
  }
  println!("c03_scan: {} failing of {} positions", bad, total);
  for m in first.iter() { println!("  {}", m); }
  assert!(bad == 0, "c03_scan: {} failing positions", bad);
}
