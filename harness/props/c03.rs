// C03 -- cell geometry accessors are mutually consistent and map back to their cell.
use hp::compass_point::{Cardinal, CardinalSet};

pub const C03_TOL: f64 = 4e-14;

fn c03_card(k: u8) -> Cardinal { match k { 0 => Cardinal::S, 1 => Cardinal::E, 2 => Cardinal::N, _ => Cardinal::W } }

/// "offsets in [0, 1] up to rounding": the offsets are fractional parts of plane coordinates (magnitude <= 11, i.e. absolute
/// rounding error of a few 2^-50) scaled by nside / 2, so the lower bound is -2^-48 * nside (3.6e-15 at depth 0, 1.9e-6 at depth 29)
pub fn c03_lo(depth: u8) -> f64 { -((1u64 << depth) as f64) / ((1u64 << 48) as f64) }

/// Native: every accessor of one cell through the public API (real proj / unproj). dxk, dyk in 1..=1023: offsets k/1024.
#[cfg(not(kani))]
pub fn p_c03_cell(depth: u8, h: u64, dxk: u32, dyk: u32) {
  if !(depth <= 29 && h < spec_n_hash(depth) && dxk >= 1 && dxk <= 1023 && dyk >= 1 && dyk <= 1023) { return; }
  let layer = hp::nested::get_or_create(depth);
  let n = (1u64 << depth) as f64;
  let (b, i, j) = spec_decode(depth, h);
  let (cxi, cyi) = plane_center(depth, b, i, j);
  // centre
  let (pcx, pcy) = layer.center_of_projected_cell(h);
  assert!(pcx == cxi as f64 / n && pcy == cyi as f64 / n, "C03: projected centre differs from the plane oracle (depth {} cell {})", depth, h);
  let (clon, clat) = layer.center(h);
  assert!(layer.hash(clon, clat) == h, "C03: the centre of cell {} (depth {}) does not hash back to it", h, depth);
  let (hh, dx, dy) = layer.hash_with_dxdy(clon, clat);
  assert!(hh == h && (dx - 0.5).abs() <= 1e-5 && (dy - 0.5).abs() <= 1e-5, "C03: hash_with_dxdy of the centre of cell {} (depth {}) is ({}, {}, {})", h, depth, hh, dx, dy);
  // interior offset position
  let (odx, ody) = (dxk as f64 / 1024.0, dyk as f64 / 1024.0);
  let (lon, lat) = layer.sph_coo(h, odx, ody);
  assert!(layer.hash(lon, lat) == h, "C03: sph_coo({}, {}, {}) at depth {} does not hash back to the cell", h, odx, ody, depth);
  let (h2, dx2, dy2) = layer.hash_with_dxdy(lon, lat);
  assert!(h2 == h && dx2.is_finite() && dy2.is_finite() && dx2 >= c03_lo(depth) && dx2 <= 1.0 && dy2 >= c03_lo(depth) && dy2 <= 1.0, "C03: hash_with_dxdy of an interior position leaves the cell / offsets not in [0, 1]");
  let (lon3, lat3) = layer.sph_coo(h2, dx2.max(0.0).min(0.9999999999999999), dy2.max(0.0).min(0.9999999999999999));
  let (x3, y3) = ref_proj(lon3, lat3);
  let (x1, y1) = ref_proj(lon, lat);
  let mut ddx = (x3 - x1) % 8.0; if ddx > 4.0 { ddx -= 8.0; } if ddx < -4.0 { ddx += 8.0; }
  assert!(ddx.abs() <= 1e-12 && (y3 - y1).abs() <= 1e-12, "C03: sph_coo does not invert hash_with_dxdy");
  // vertices: same whichever accessor returns them
  let vs = layer.vertices(h);
  let vm = layer.vertices_map(h, CardinalSet::all());
  let mut k = 0u8;
  while k < 4 {
    let v = layer.vertex(h, c03_card(k));
    let m = *vm.get(c03_card(k)).expect("C03: vertices_map misses a vertex");
    assert!(v.0.to_bits() == vs[k as usize].0.to_bits() && v.1.to_bits() == vs[k as usize].1.to_bits()
            && v.0.to_bits() == m.0.to_bits() && v.1.to_bits() == m.1.to_bits(), "C03: vertex / vertices / vertices_map disagree");
    k += 1;
  }
  // edge path and grid, nudged inwards, hash back to the cell
  let path = layer.path_along_cell_edge(h, &Cardinal::S, false, 3);
  assert!(path.len() == 12, "C03: path_along_cell_edge has not 4*n_segments points");
  let grid = layer.grid(h, 2);
  assert!(grid.len() == 9, "C03: grid has not (n_segments+1)^2 points");
  let mut t = 0usize;
  while t < 12 + 9 {
    let p = if t < 12 { path[t] } else { grid[t - 12] };
    let (px, py) = ref_proj(p.0, p.1);
    // nudge towards the centre by 1/64 of the cell, in the plane
    let mut dx = (pcx - px) % 8.0; if dx > 4.0 { dx -= 8.0; } if dx < -4.0 { dx += 8.0; }
    // points sitting on a polar seam are projected in the other facet: use the cell-relative excess instead of nudging those
    let e = ref_excess(depth, h, px, py);
    assert!(e <= C03_TOL, "C03: a path / grid point of cell {} (depth {}) is not on the cell: excess {:e}", h, depth, e);
    if dx.abs() <= 1.0 / n + 1e-9 {
      let (nx, ny) = (px + dx / 64.0, py + (pcy - py) / 64.0);
      let (nlon, nlat) = hp::unproj(nx.rem_euclid(8.0), ny.max(-2.0).min(2.0));
      assert!(layer.hash(nlon, nlat) == h, "C03: a path / grid point of cell {} (depth {}) nudged inwards does not hash back to it", h, depth);
    }
    t += 1;
  }
}

/// Native: hash_with_dxdy of an arbitrary position: cell contains it, offsets finite in [0, 1] (up to rounding), agrees with hash off borders.
#[cfg(not(kani))]
pub fn p_c03_point(depth: u8, lon: f64, lat: f64) {
  if !(depth <= 29 && lat >= -0.5 * REF_PI && lat <= 0.5 * REF_PI && lon.abs() <= 25.2) { return; }
  let layer = hp::nested::get_or_create(depth);
  let (h, dx, dy) = layer.hash_with_dxdy(lon, lat);
  assert!(h < spec_n_hash(depth), "C03: hash_with_dxdy out of range: depth {} lon {:e} lat {:e}", depth, lon, lat);
  assert!(dx.is_finite() && dy.is_finite() && dx >= c03_lo(depth) && dx <= 1.0 && dy >= c03_lo(depth) && dy <= 1.0, "C03: offsets not in [0, 1]: depth {} lon {:e} ({:#x}) lat {:e} ({:#x}): {} {}", depth, lon, lon.to_bits(), lat, lat.to_bits(), dx, dy);
  let (x, y) = ref_proj(lon, lat);
  let e = ref_excess(depth, h, x, y);
  assert!(e <= C03_TOL, "C03: hash_with_dxdy returns a cell that does not contain the position: depth {} lon {:e} ({:#x}) lat {:e} ({:#x}) hash {} excess {:e}", depth, lon, lon.to_bits(), lat, lat.to_bits(), h, e);
  let margin = 1e-6;
  if dx > margin && dx < 1.0 - margin && dy > margin && dy < 1.0 - margin {
    assert!(layer.hash(lon, lat) == h, "C03: hash and hash_with_dxdy disagree away from cell borders: depth {} lon {:e} lat {:e}", depth, lon, lat);
  }
  // sph_coo inverts hash_with_dxdy whenever both offsets are in [0, 1): the position is recovered to within 1e-13 rad
  if dx >= 0.0 && dx < 1.0 && dy >= 0.0 && dy < 1.0 {
    let (lon3, lat3) = layer.sph_coo(h, dx, dy);
    let sdlat = (0.5 * (lat3 - lat)).sin();
    let sdlon = (0.5 * (lon3 - lon)).sin();
    let a = sdlat * sdlat + lat.cos() * lat3.cos() * sdlon * sdlon;
    let sep = 2.0 * a.sqrt().asin();
    assert!(sep <= 1e-13 + 1e-15 * lon.abs(), "C03: sph_coo does not invert hash_with_dxdy: depth {} lon {:e} ({:#x}) lat {:e} ({:#x}) -> cell {} offsets ({:e}, {:e}) -> ({:e}, {:e}), separation {:e} rad",
            depth, lon, lon.to_bits(), lat, lat.to_bits(), h, dx, dy, lon3, lat3, sep);
  }
}

#[cfg(not(kani))]
pub fn p_c03_pullback(depth: u8, x: f64, y: f64) {
  if !(x.is_finite() && y >= -2.0 && y <= 2.0) { return; }
  if x < 0.0 && x >= -8.0 { let (lon2, lat2) = hp::unproj(x, y); p_c03_point(depth, lon2, lat2); p_c03_point(depth, -0.0, lat2); p_c03_point(depth, -5e-324, lat2); }
  let (lon, lat) = hp::unproj(x.rem_euclid(8.0), y);
  let mut a = -12i64;
  while a <= 12 {
    let mut b = -12i64;
    while b <= 12 {
      let lo = f64::from_bits((lon.to_bits() as i64).wrapping_add(a) as u64);
      let la = f64::from_bits((lat.to_bits() as i64).wrapping_add(b) as u64);
      if lo.is_finite() && la.is_finite() { p_c03_point(depth, lo, la); }
      b += 1;
    }
    a += 1;
  }
  // the image point may sit on a facet seam or diagonal: snap the longitude to the nearest multiples of pi/4 (the solver's
  // image point is then only reachable from the exact meridian), and the latitude to the special values
  let k = (lon / (0.25 * REF_PI)).round();
  let t = 0.72972765622696636344_f64;
  let lats = [lat, 0.0, t, -t, 0.5 * REF_PI, -0.5 * REF_PI];
  let mut dk = -1.0;
  while dk <= 1.0 {
    let l0 = (k + dk) * 0.25 * REF_PI;
    let lons = [l0, -l0, l0 - 2.0 * REF_PI];
    for lo0 in lons.iter() {
      for la0 in lats.iter() {
        let mut a = -2i64;
        while a <= 2 {
          let mut b = -4i64;
          while b <= 4 {
            let lo = f64::from_bits((lo0.to_bits() as i64).wrapping_add(a) as u64);
            let la = f64::from_bits((la0.to_bits() as i64).wrapping_add(b) as u64);
            if lo.is_finite() && la.is_finite() && la.abs() <= 0.5 * REF_PI { p_c03_point(depth, lo, la); }
            b += 1;
          }
          a += 1;
        }
      }
    }
    dk += 1.0;
  }
}

pub fn p_c03_guard(depth: u8, which: u8, h: u64) {
  if !(depth <= 29 && h >= spec_n_hash(depth)) { return; }
  let layer = hp::nested::get_or_create(depth);
  match which {
    0 => { let _ = layer.center(h); }
    1 => { let _ = layer.sph_coo(h, 0.5, 0.5); }
    2 => { let _ = layer.vertex(h, Cardinal::N); }
    3 => { let _ = layer.vertices(h); }
    4 => { let _ = layer.vertices_map(h, CardinalSet::all()); }
    5 => { let _ = layer.path_along_cell_edge(h, &Cardinal::S, true, 1); }
    6 => { let _ = layer.path_along_cell_side(h, &Cardinal::S, &Cardinal::E, true, 1); }
    7 => { let _ = layer.grid(h, 1); }
    _ => { let _ = layer.center_of_projected_cell(h); }
  }
  panic!("C03-GUARD-NOT-TRIGGERED: out-of-range cell number accepted");
}
