// C16 (table clause) -- best_starting_depth(r) returns the deepest depth whose tabulated limit still exceeds r.

/// Independent copy of the documented table (smallest edge-to-opposite-edge distance per depth, radians).
pub const C16_TABLE: [f64; 30] = [
  0.8410686705685088, 0.37723631722170053, 0.18256386461918295, 0.09000432499034523, 0.04470553761855741,
  0.02228115704023076, 0.011122977211214961, 0.005557125022105058, 0.0027774761500209185, 0.0013884670480328143,
  6.941658374603201E-4, 3.4706600585087755E-4, 1.7352877579970442E-4, 8.676333125510362E-5, 4.338140148342286E-5,
  2.1690634707822447E-5, 1.084530084565172E-5, 5.422646295795749E-6, 2.711322116099695E-6, 1.3556608000873442E-6,
  6.778303355805395E-7, 3.389151516386149E-7, 1.69457571754776E-7, 8.472878485272006E-8, 4.236439215502565E-8,
  2.1182195982014308E-8, 1.0591097960375205E-8, 5.295548939447981E-9, 2.647774429917369E-9, 1.3238871881399636E-9,
];

pub fn p_c16_bsd(r: f64) {
  let has = hp::has_best_starting_depth(r);
  assert!(has == (r < C16_TABLE[0]), "C16: has_best_starting_depth is not `r < limit of depth 0`");
  if !has { return; }
  let d = hp::best_starting_depth(r);
  assert!(d <= 29, "C16: best_starting_depth out of range");
  assert!(C16_TABLE[d as usize] > r, "C16: the tabulated limit of the returned depth does not exceed r");
  assert!(d == 29 || !(C16_TABLE[d as usize + 1] > r), "C16: a deeper depth still has a limit exceeding r");
}

pub fn p_c16_table_monotone(k: u8) {
  if k >= 29 { return; }
  assert!(C16_TABLE[k as usize] > C16_TABLE[k as usize + 1] && C16_TABLE[29] > 0.0, "C16: table not strictly decreasing");
}

pub fn p_c16_guard(r: f64) {
  if hp::has_best_starting_depth(r) { return; }
  let _ = hp::best_starting_depth(r);
  panic!("C16-GUARD-NOT-TRIGGERED: best_starting_depth accepted a radius that has_best_starting_depth refuses");
}
