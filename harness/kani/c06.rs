use hp::nested::Layer;
use hp::nested::bmoc::BMOCBuilderUnsafe;

/// The radius is concrete (pi, the next double, 4, 1e300, +inf): with a symbolic radius the symbolic execution cannot fold the
/// `cone_radius >= PI` test and unrolls the whole cone search behind it. The centre is symbolic (every double, NaN included).
fn k_c06_allsky(depth: u8, delta: u8) {
  let lon: f64 = kani::any();
  let lat: f64 = kani::any();
  kani::cover!(lat != lat, "NaN centre");
  p_c06_allsky(depth, delta, lon, lat, C_PI);
  p_c06_allsky(depth, delta, lon, lat, 3.1415926535897936);
  p_c06_allsky(depth, delta, lon, lat, 4.0);
  p_c06_allsky(depth, delta, lon, lat, 1e300);
  p_c06_allsky(depth, delta, lon, lat, f64::INFINITY);
}

/// the boundary radius alone, with the recursive descent cut away (it pushes nothing): if the all-sky special case is not taken
/// for radius == pi the result is not the 12 full base cells and the harness fails at once (the uncut recursion over
/// nondeterministic libm values runs out of memory at 30 GB instead of producing a counter-example)
pub(crate) fn stub_recur_nothing<F>(_l: &Layer, _depth: u8, _hash: u64, _f: &F, _mm: &[super::MinMax], _rd: u8, _b: &mut BMOCBuilderUnsafe)
  where F: Fn((f64, f64)) -> f64 {}

fn k_c06_allsky_pi(depth: u8, delta: u8) {
  let lon: f64 = kani::any();
  let lat: f64 = kani::any();
  kani::assume(lon >= 0.0 && lon <= 6.3 && lat >= -C_HALF_PI && lat <= C_HALF_PI);
  p_c06_allsky(depth, delta, lon, lat, C_PI);
}

// ---- threshold logic of the recursive descent (real cone_coverage_approx_recur) -----------------------------------
// Layer::center is replaced by a recorder of the visited cell; the distance closure returns an arbitrary non-negative value
// per visited cell and logs it. Whatever these values are: a cell is pushed `full` iff its value <= min of its level, pushed
// `partial` iff it is at the target depth and min < value <= max, descended into iff above the target depth and
// min < value <= max; and the pushed sequence is a well formed BMOC.
const LOG_N: usize = 24;
static mut CUR: (u8, u64) = (0, 0);
static mut LOG: [(u8, u64, u64); LOG_N] = [(0, 0, 0); LOG_N];
static mut LOG_LEN: usize = 0;

pub(crate) fn stub_center(l: &Layer, hash: u64) -> (f64, f64) {
  unsafe { CUR = (l.depth(), hash); }
  (0.0, 0.0)
}

fn logged(d: u8, h: u64) -> Option<f64> {
  let mut k = 0usize;
  let mut r = None;
  unsafe {
    while k < LOG_N {
      if k < LOG_LEN && LOG[k].0 == d && LOG[k].1 == h { r = Some(f64::from_bits(LOG[k].2)); }
      k += 1;
    }
  }
  r
}

fn k_c06_recur(depth_start: u8, levels: u8) {
  let depth = depth_start + levels;
  let layer = Layer::new(depth);
  let root: u64 = kani::any();
  kani::assume(root < spec_n_hash(depth_start));
  let (mn0, mx0, mn1, mx1, mn2, mx2): (f64, f64, f64, f64, f64, f64) = (kani::any(), kani::any(), kani::any(), kani::any(), kani::any(), kani::any());
  kani::assume(mn0 >= 0.0 && mn0 <= mx0 && mx0 <= 1.0 && mn1 >= 0.0 && mn1 <= mx1 && mx1 <= 1.0 && mn2 >= 0.0 && mn2 <= mx2 && mx2 <= 1.0);
  let minmax = [super::MinMax { min: mn0, max: mx0 }, super::MinMax { min: mn1, max: mx1 }, super::MinMax { min: mn2, max: mx2 }];
  let shs = |_c: (f64, f64)| -> f64 {
    let v: f64 = kani::any();
    kani::assume(v >= 0.0 && v <= 1.0);
    unsafe {
      assert!(LOG_LEN < LOG_N, "verif model: visit log full");
      LOG[LOG_LEN] = (CUR.0, CUR.1, v.to_bits());
      LOG_LEN += 1;
    }
    v
  };
  let mut builder = BMOCBuilderUnsafe::new(depth, 32);
  layer.cone_coverage_approx_recur(depth_start, root, &shs, &minmax, 0, &mut builder);
  let m = builder.to_bmoc();
  // structure: well formed whatever the distances are (C09, producers)
  let c: u64 = kani::any();
  kani::assume(c < spec_n_hash(depth));
  let (bad, st, _) = spec_scan(depth, &m.entries, c);
  assert!(bad.is_none(), "C09: the sequence pushed by the cone recursion is not a well formed BMOC");
  // threshold logic at the probe cell c: walk down from the root to c
  let mn = [mn0, mn1, mn2];
  let mx = [mx0, mx1, mx2];
  let in_root = (c >> (2 * levels as u32)) == root;
  let mut expected = ABSENT;
  let mut lvl = 0u8;
  let mut alive = in_root;
  while lvl <= levels {
    if alive {
      let d = depth_start + lvl;
      let h = c >> (2 * (depth - d) as u32);
      match logged(d, h) {
        None => { assert!(false, "C06: a cell on the descent path was not evaluated"); }
        Some(v) => {
          if v <= mn[lvl as usize] { expected = FULL; alive = false; }
          else if v <= mx[lvl as usize] { if d == depth { expected = PARTIAL; alive = false; } }
          else { alive = false; }
        }
      }
    }
    lvl += 1;
  }
  kani::cover!(expected == FULL && in_root, "a fully covered cell");
  kani::cover!(expected == PARTIAL, "a partially covered cell at the target depth");
  assert!(st == expected, "C06: flag / presence of a cell disagrees with the distance thresholds of its level");
}
