// plane cut (DESIGN.md 3.3): proj returns the plane point chosen by the harness, unproj is the identity with its domain assertion.
static mut PLANE: (u64, u64) = (0, 0);
pub(crate) fn stub_proj(_lon: f64, _lat: f64) -> (f64, f64) { unsafe { (f64::from_bits(PLANE.0), f64::from_bits(PLANE.1)) } }
pub(crate) fn stub_unproj(x: f64, y: f64) -> (f64, f64) {
  assert!(y >= -2.0 && y <= 2.0, "unproj domain: y outside [-2, 2]");
  (x, y)
}
fn set_plane(x: f64, y: f64) { unsafe { PLANE = (x.to_bits(), y.to_bits()); } }

/// harnesses on interior points (cell centre, offsets k/1024, nudged path points): the border path of hash_with_dxdy
/// (`hash_with_dxdy_in_base_cell_frame`) must not be taken at all; it is replaced by a recorder and the harness asserts the flag
static mut BORDER_PATH_TAKEN: bool = false;
pub(crate) fn stub_border_path(_l: &hp::nested::Layer, _lon: f64, _lat: f64) -> (u64, f64, f64) { unsafe { BORDER_PATH_TAKEN = true; } (0, 0.0, 0.0) }
fn border_path_taken() -> bool { unsafe { BORDER_PATH_TAKEN } }

/// `Layer::d0h_lh_in_d0c` under the plane cut (used by hash_with_dxdy for the positions on / next to the polar base-cell borders):
/// any base cell and in-base-cell coordinates consistent with the plane point chosen by the harness -- range facts of lemma R
/// (decided on the real code by C01 / C02) and placement within 2^-46 (lemma P of C01): centre(d0h) + (l, h - 1) = (x, y), x modulo 8.
pub(crate) fn stub_d0h_lh_plane(_lon: f64, _lat: f64) -> (u8, f64, f64) {
  let (x, y) = unsafe { (f64::from_bits(PLANE.0), f64::from_bits(PLANE.1)) };
  let d0h: u8 = kani::any();
  let l: f64 = kani::any();
  let h: f64 = kani::any();
  let tol = 1.4210854715202004e-14;   // 2^-46
  kani::assume(d0h < 12 && l >= -1.0 - tol && l <= 1.0 + tol && h >= -tol && h <= 2.0 + tol);
  kani::assume(h + l < 2.0000000037252903 && h - l < 2.0000000037252903 && h + l >= -tol && h - l >= -tol);
  let mut ex = BASE_CX[d0h as usize] as f64 + l - x;
  if ex > 4.0 { ex -= 8.0; }
  if ex < -4.0 { ex += 8.0; }
  let ey = BASE_CY[d0h as usize] as f64 + (h - 1.0) - y;
  kani::assume(ex <= tol && ex >= -tol && ey <= tol && ey >= -tol);
  (d0h, l, h)
}

fn in_image(x: f64, y: f64, eps: f64) -> bool {
  let ay = if y < 0.0 { -y } else { y };
  if !(x >= 0.0 && x <= 8.0 && ay <= 2.0) { return false; }
  if ay <= 1.0 { return true; }
  let mut q = (x * 0.5) as u64 as f64;
  if q > 3.0 { q = 3.0; }
  let u = x - (2.0 * q + 1.0);
  let au = if u < 0.0 { -u } else { u };
  au <= (2.0 - ay) + eps
}

/// part: 0 = centre (plane oracle, hashes back with offsets (0.5, 0.5)); 1 = interior offsets k/1024 hash back and are recovered;
/// 2 = vertices identical through the three accessors and equal to centre +- 1/nside
fn k_c03_cell(depth: u8, part: u8) {
  let h: u64 = kani::any();
  let dxk: u32 = kani::any();
  let dyk: u32 = kani::any();
  kani::assume(h < spec_n_hash(depth) && dxk >= 1 && dxk <= 1023 && dyk >= 1 && dyk <= 1023);
  let layer = hp::nested::get_or_create(depth);
  let n = (1u64 << depth) as f64;
  let (b, i, j) = spec_decode(depth, h);
  kani::cover!(b < 4 && i as u64 == (1u64 << depth) - 1 && j as u64 == (1u64 << depth) - 1, "cell at the north pole");
  kani::cover!(b == 4 && i < j, "west half of base cell 4 (negative x before wrapping)");
  let (cx, cy) = layer.center(h);                       // unproj = identity: plane coordinates
  if part == 0 {
    let (cxi, cyi) = plane_center(depth, b, i, j);
    assert!(cx == cxi as f64 / n && cy == cyi as f64 / n, "C03: centre differs from the plane oracle");
    set_plane(cx, cy);
    let (hc, dxc, dyc) = layer.hash_with_dxdy(0.0, 0.0);
    assert!(!border_path_taken(), "C03: the centre of a cell is treated as a base-cell border position");
    assert!(hc == h && dxc == 0.5 && dyc == 0.5, "C03: the centre of a cell does not hash back to it with offsets (0.5, 0.5)");
  } else if part == 1 {
    let (odx, ody) = (dxk as f64 / 1024.0, dyk as f64 / 1024.0);
    let (px, py) = layer.sph_coo(h, odx, ody);
    set_plane(px, py);
    let (h2, dx2, dy2) = layer.hash_with_dxdy(0.0, 0.0);
    assert!(!border_path_taken(), "C03: an interior position is treated as a base-cell border position");
    assert!(h2 == h, "C03: an interior offset position does not hash back to its cell");
    let tol = 9.5367431640625e-07;   // 2^-20
    assert!(dx2 - odx <= tol && odx - dx2 <= tol && dy2 - ody <= tol && ody - dy2 <= tol, "C03: offsets are not recovered by hash_with_dxdy");
  } else {
    let vs = layer.vertices(h);
    let vm = layer.vertices_map(h, CardinalSet::all());
    let r = 1.0 / n;
    let mut k = 0u8;
    while k < 4 {
      let v = layer.vertex(h, c03_card(k));
      let m = match vm.get(c03_card(k)) { Some(m) => *m, None => (f64::NAN, f64::NAN) };
      assert!(v.0.to_bits() == vs[k as usize].0.to_bits() && v.1.to_bits() == vs[k as usize].1.to_bits()
              && v.0.to_bits() == m.0.to_bits() && v.1.to_bits() == m.1.to_bits(), "C03: vertex / vertices / vertices_map disagree");
      let (ex, ey) = match k { 0 => (cx, cy - r), 1 => (cx + r, cy), 2 => (cx, cy + r), _ => (if cx - r < 0.0 { cx - r + 8.0 } else { cx - r }, cy) };
      assert!(v.0 == ex && v.1 == ey, "C03: a vertex is not centre +- 1/nside");
      k += 1;
    }
  }
}

/// a symbolic point of the edge path / of the grid, nudged inwards, hashes back to the cell
fn k_c03_path(depth: u8) {
  let h: u64 = kani::any();
  let t: usize = kani::any();
  let cw: bool = kani::any();
  let sk: u8 = kani::any();
  kani::assume(h < spec_n_hash(depth) && t < 12 + 9 && sk < 4);
  let layer = hp::nested::get_or_create(depth);
  let (cx, cy) = layer.center(h);
  let p = if t < 12 {
    let path = layer.path_along_cell_edge(h, &c03_card(sk), cw, 3);
    assert!(path.len() == 12, "C03: path_along_cell_edge has not 4*n_segments points");
    path[t]
  } else {
    let grid = layer.grid(h, 2);
    assert!(grid.len() == 9, "C03: grid has not (n_segments+1)^2 points");
    grid[t - 12]
  };
  // the point is on the closed cell
  let n = (1u64 << depth) as f64;
  let e = ref_excess_center(cx, cy, 1.0 / n, p.0, p.1);
  assert!(e <= 1e-12, "C03: a path / grid point is not on the cell");
  // nudged towards the centre by 1/64 of the distance: strictly inside, hashes back to the cell
  let mut dx = cx - p.0;
  if dx > 4.0 { dx -= 8.0; }
  if dx < -4.0 { dx += 8.0; }
  let mut nx = p.0 + dx * 0.015625;
  if nx < 0.0 { nx += 8.0; }
  if nx >= 8.0 { nx -= 8.0; }
  let ny = p.1 + (cy - p.1) * 0.015625;
  kani::cover!(t == 20, "last grid point");
  kani::cover!(t == 0 && cw, "first path point, clockwise");
  if !(p.0 == cx && p.1 == cy) {
    set_plane(nx, ny);
    let (h2, _, _) = layer.hash_with_dxdy(0.0, 0.0);
    assert!(!border_path_taken(), "C03: an interior position is treated as a base-cell border position");
    assert!(h2 == h, "C03: a path / grid point nudged inwards does not hash back to its cell");
  }
}

/// every point of the HEALPix image: hash_with_dxdy total, in range, offsets finite in [0, 1] up to rounding, cell contains the point,
/// and sph_coo inverts it whenever both offsets are in [0, 1)
/// split by latitude band of the point and by base cell `b` of the returned cell (the range harness shows the cell number is
/// in range, so the 12 classes are exhaustive): with a concrete base cell the containment oracle folds to one facet
/// part: 0 = offsets in [0, 1) (the generic case): sph_coo(h, dx, dy) gives the plane point back within 1e-13 (x modulo 8) -- the
///           point is then within 1e-13 of a point of cell h, because sph_coo(h, dx, dy) = centre + ((dx - dy) / n, (dx + dy - 1) / n)
///           (decided by c03_offset / c03_centre);
///       1 = an offset equal to 1 or below 0 (borders of the polar base cells, poles, rounding): containment by the plane oracle
fn k_c03_image(depth: u8, region: u8, b: u8, part: u8) {
  let x: f64 = kani::any();
  let y: f64 = kani::any();
  kani::assume(in_image(x, y, 8.881784197001252e-16));
  kani::assume(match region { 0 => y > 1.0, 1 => y >= -1.0 && y <= 1.0, _ => y < -1.0 });
  set_plane(x, y);
  let layer = hp::nested::get_or_create(depth);
  let (h, dx, dy) = layer.hash_with_dxdy(0.0, 0.0);
  if b < 12 {
    kani::assume(h >> (2 * depth as u32) == b as u64);
    kani::cover!(true, "a point of the band is mapped to the base cell");
  } else {
    // complement class of a polar band (expected to be empty): any base cell other than the 4 of the cap
    let bb = h >> (2 * depth as u32);
    kani::assume(if region == 0 { bb >= 4 } else { bb < 8 });
  }
  assert!(h < spec_n_hash(depth), "C03: hash_with_dxdy out of range");
  let lo = c03_lo(depth);   // "up to rounding", see c03_lo
  assert!(dx >= lo && dx <= 1.0 && dy >= lo && dy <= 1.0, "C03: offsets not in [0, 1] (up to rounding)");
  let generic = dx >= 0.0 && dx < 1.0 && dy >= 0.0 && dy < 1.0;
  if part == 0 {
    kani::assume(generic);
    let (px, py) = layer.sph_coo(h, dx, dy);
    let mut ex = px - x;
    if ex > 4.0 { ex -= 8.0; }
    if ex < -4.0 { ex += 8.0; }
    let ey = py - y;
    let tol = 1e-13;
    assert!(ex <= tol && ex >= -tol && ey <= tol && ey >= -tol, "C03: sph_coo does not invert hash_with_dxdy");
  } else {
    kani::assume(!generic);
    let e = ref_excess(depth, h, x, y);
    assert!(e <= 1e-12, "C03: hash_with_dxdy returns a cell that does not contain the position");
  }
}

/// the totality / range clauses alone (no containment oracle): cheap, so decided at many depths
fn k_c03_range(depth: u8, region: u8) {
  let x: f64 = kani::any();
  let y: f64 = kani::any();
  kani::assume(in_image(x, y, 8.881784197001252e-16));
  kani::assume(match region { 0 => y > 1.0, 1 => y >= -1.0 && y <= 1.0, _ => y < -1.0 });
  set_plane(x, y);
  let layer = hp::nested::get_or_create(depth);
  kani::cover!(x == 4.0, "x = 4 (seam or base cell corner line)");
  kani::cover!(x == 8.0, "x = 8");
  let (h, dx, dy) = layer.hash_with_dxdy(0.0, 0.0);
  assert!(h < spec_n_hash(depth), "C03: hash_with_dxdy out of range");
  let lo = c03_lo(depth);   // "up to rounding", see c03_lo
  assert!(dx >= lo && dx <= 1.0 && dy >= lo && dy <= 1.0, "C03: offsets not in [0, 1] (up to rounding)");
}

fn k_c03_guard(depth: u8, which: u8) {
  let h: u64 = kani::any();
  kani::assume(h >= spec_n_hash(depth));
  let layer = hp::nested::get_or_create(depth);
  match which {
    0 => { let _ = layer.center(h); }
    1 => { let _ = layer.sph_coo(h, 0.5, 0.5); }
    2 => { let _ = layer.vertex(h, Cardinal::N); }
    3 => { let _ = layer.vertices(h); }
    4 => { let _ = layer.vertices_map(h, CardinalSet::all()); }
    5 => { let _ = layer.path_along_cell_edge(h, &Cardinal::S, true, 1); }
    6 => { let _ = layer.path_along_cell_side(h, &Cardinal::S, &Cardinal::E, true, 1); }
    7 => { let _ = layer.grid(h, 1); }
    _ => { let _ = layer.center_of_projected_cell(h); }
  }
  kani::cover!(true, "guard bypassed");
}
