// Oracles that are independent of the code under test. Plain Rust (no kani items) so that the native
// replay crate compiles the very same file.

/// Bit-loop specification of the z-order curve: bits of i at even positions, bits of j at odd positions.
pub fn spec_interleave(i: u32, j: u32) -> u64 {
  let mut h = 0u64;
  let mut k = 0u32;
  while k < 32 {
    h |= (((i >> k) & 1) as u64) << (2 * k);
    h |= (((j >> k) & 1) as u64) << (2 * k + 1);
    k += 1;
  }
  h
}

/// Inverse of `spec_interleave` by a bit loop.
pub fn spec_deinterleave(h: u64) -> (u32, u32) {
  let mut i = 0u32;
  let mut j = 0u32;
  let mut k = 0u32;
  while k < 32 {
    i |= (((h >> (2 * k)) & 1) as u32) << k;
    j |= (((h >> (2 * k + 1)) & 1) as u32) << k;
    k += 1;
  }
  (i, j)
}

/// Number of cells at a depth, written independently of the crate: 12 * 4^depth.
pub fn spec_n_hash(depth: u8) -> u64 {
  12u64 << (2 * depth as u32)
}

/// De-interleave only the 2*d low bits (d iterations): (i, j) of the in-base-cell part of a hash.
pub fn spec_deinterleave_d(h: u64, d: u8) -> (u32, u32) {
  let mut i = 0u32;
  let mut j = 0u32;
  let mut k = 0u32;
  while k < d as u32 {
    i |= (((h >> (2 * k)) & 1) as u32) << k;
    j |= (((h >> (2 * k + 1)) & 1) as u32) << k;
    k += 1;
  }
  (i, j)
}

/// (base cell, i, j) of a nested hash, by the definition of the nested scheme.
pub fn spec_decode(d: u8, h: u64) -> (u8, u32, u32) {
  let b = (h >> (2 * d as u32)) as u8;
  let (i, j) = spec_deinterleave_d(h, d);
  (b, i, j)
}

pub fn spec_encode(d: u8, b: u8, i: u32, j: u32) -> u64 {
  let mut h = (b as u64) << (2 * d as u32);
  let mut k = 0u32;
  while k < d as u32 {
    h |= (((i >> k) & 1) as u64) << (2 * k);
    h |= (((j >> k) & 1) as u64) << (2 * k + 1);
    k += 1;
  }
  h
}

// ------------------------------------------------------------------------------------------------------------
// Plane integer geometry (DESIGN.md 3.4). Unit = 1/nside of the HEALPix projection plane, so that every cell
// centre and vertex has integer coordinates. The 12 base-cell centres are written out as a table
// (Calabretta & Roukema 2007, fig. 1 / Gorski 2005 fig. 4), not computed by the crate.
// ------------------------------------------------------------------------------------------------------------

pub const BASE_CX: [i64; 12] = [1, 3, 5, 7, 0, 2, 4, 6, 1, 3, 5, 7];
pub const BASE_CY: [i64; 12] = [1, 1, 1, 1, 0, 0, 0, 0, -1, -1, -1, -1];

/// Centre of cell (b, i, j) of depth d, x reduced to [0, 8 nside).
pub fn plane_center(d: u8, b: u8, i: u32, j: u32) -> (i64, i64) {
  let n = 1i64 << d;
  let x = i as i64 - j as i64 + BASE_CX[b as usize] * n;
  let y = i as i64 + j as i64 - (n - 1) + BASE_CY[b as usize] * n;
  (x & (8 * n - 1), y)
}

/// Canonical representative of a grid point for the identifications of the sphere:
/// x modulo 8 nside; in a polar cap the boundary u = t of facet q is the boundary u = -t of facet q+1; t = 0 is the pole.
pub fn plane_canon(d: u8, x: i64, y: i64) -> (i64, i64) {
  let n = 1i64 << d;
  let x = x & (8 * n - 1);
  let ay = if y < 0 { -y } else { y };
  if ay > n {
    let t = 2 * n - ay;
    if t == 0 { return (0, y); }
    let q = x >> (d as u32 + 1);
    let u = x - (2 * q + 1) * n;
    if u == t { return (((2 * q + 3) * n - t) & (8 * n - 1), y); }
  }
  (x, y)
}

/// Canonical vertices [S, E, N, W] of the cell of centre (cx, cy).
pub fn plane_vertices(d: u8, cx: i64, cy: i64) -> [(i64, i64); 4] {
  [plane_canon(d, cx, cy - 1), plane_canon(d, cx + 1, cy), plane_canon(d, cx, cy + 1), plane_canon(d, cx - 1, cy)]
}

pub fn plane_cell_vertices(d: u8, h: u64) -> [(i64, i64); 4] {
  let (b, i, j) = spec_decode(d, h);
  let (cx, cy) = plane_center(d, b, i, j);
  plane_vertices(d, cx, cy)
}

/// Number of canonical vertices shared by two vertex sets (each set has 4 distinct points).
pub fn plane_n_shared(va: &[(i64, i64); 4], vc: &[(i64, i64); 4]) -> u32 {
  let mut n = 0u32;
  let mut k = 0;
  while k < 4 {
    let mut l = 0;
    while l < 4 {
      if va[k].0 == vc[l].0 && va[k].1 == vc[l].1 { n += 1; }
      l += 1;
    }
    k += 1;
  }
  n
}

pub fn plane_has_vertex(vc: &[(i64, i64); 4], p: (i64, i64)) -> bool {
  (vc[0].0 == p.0 && vc[0].1 == p.1) || (vc[1].0 == p.0 && vc[1].1 == p.1)
    || (vc[2].0 == p.0 && vc[2].1 == p.1) || (vc[3].0 == p.0 && vc[3].1 == p.1)
}

/// The 8 points of the sphere where only three cells meet: (2 q nside, +-nside).
pub fn plane_is_three_cell_point(d: u8, p: (i64, i64)) -> bool {
  let n = 1i64 << d;
  (p.1 == n || p.1 == -n) && (p.0 & (2 * n - 1)) == 0
}
