// C09 (views) and C15 (fixed-depth builder). Uses Ops / spec_* from the common oracles and bmoc_build from props/c07.rs.
use hp::nested::bmoc::BMOCBuilderFixedDepth;

fn c09_deep_size(o: &Ops) -> usize {
  let mut ds = 0usize;
  let mut t = 0usize;
  while t < o.n { ds += 1usize << (2 * (o.dm - o.d[t]) as u32); t += 1; }
  ds
}

/// All views of a valid BMOC describe the same set of deepest-level cells. `c`: probe cell (depth_max), `k`: symbolic index.
/// view: 0 = into_iter + deep_size, 1 = flat_iter, 2 = flat_iter_cell, 3 = to_flat_array, 4 = to_ranges
pub fn p_bmoc_views(view: u8, o: &Ops, c: u64, k: u32) {
  if !(o.valid() && c < spec_n_hash(o.dm)) { return; }
  let m = bmoc_build(o);
  let st = o.state(o.dm, c);
  let ds = c09_deep_size(o);
  if view == 0 {
    assert!(m.deep_size() == ds, "C09: deep_size is not the number of deepest-level cells");
    let mut idx = 0usize;
    for cell in m.into_iter() {
      assert!(idx < o.n, "C09: into_iter yields too many cells");
      assert!(cell.depth == o.d[idx] && cell.hash == o.h[idx] && cell.is_full == o.f[idx], "C09: into_iter cell differs from the entry (depth / hash / flag)");
      assert!(cell.depth <= o.dm && cell.hash < spec_n_hash(cell.depth), "C09: cell out of range");
      idx += 1;
    }
    assert!(idx == o.n, "C09: into_iter yields too few cells");
  } else if view == 1 {
    // flat iterator: increasing, without duplicates, exactly the non-absent cells
    let mut n_flat = 0usize;
    let mut hits = 0u32;
    let mut prev: u64 = 0;
    let it = m.flat_iter();
    assert!(it.deep_size() == ds && it.depth() == o.dm, "C09: flat_iter metadata");
    for h in it {
      if n_flat > 0 { assert!(prev < h, "C09: flat_iter is not strictly increasing"); }
      if h == c { hits += 1; }
      prev = h;
      n_flat += 1;
    }
    assert!(n_flat == ds, "C09: flat_iter does not yield deep_size cells");
    assert!((hits == 1) == (st != ABSENT) && hits <= 1, "C09: flat_iter is not exactly the set of covered deepest-level cells");
  } else if view == 2 {
    let mut n_fc = 0usize;
    let mut hits_fc = 0u32;
    let mut prev: u64 = 0;
    for cell in m.flat_iter_cell() {
      assert!(cell.depth == o.dm, "C09: flat_iter_cell yields a cell that is not at depth_max");
      if n_fc > 0 { assert!(prev < cell.hash, "C09: flat_iter_cell is not strictly increasing"); }
      if cell.hash == c {
        hits_fc += 1;
        assert!(cell.is_full == (st == FULL), "C09: flat_iter_cell flag differs from the entry's flag");
      }
      prev = cell.hash;
      n_fc += 1;
    }
    assert!(n_fc == ds, "C09: flat_iter_cell does not yield deep_size cells");
    assert!((hits_fc == 1) == (st != ABSENT) && hits_fc <= 1, "C09: flat_iter_cell is not exactly the set of covered deepest-level cells");
  } else if view == 3 {
    let arr = m.to_flat_array();
    assert!(arr.len() == ds, "C09: to_flat_array has not deep_size elements");
    if (k as usize) < arr.len() {
      let v = arr[k as usize];
      assert!(v < spec_n_hash(o.dm) && o.state(o.dm, v) != ABSENT, "C09: to_flat_array contains a cell that is not covered");
      if (k as usize) + 1 < arr.len() { assert!(v < arr[k as usize + 1], "C09: to_flat_array is not strictly increasing"); }
    }
  } else {
    // ranges: sorted, disjoint, non adjacent, same set
    let rg = m.to_ranges();
    let mut in_range = 0u32;
    let mut t = 0usize;
    while t < rg.len() {
      assert!(rg[t].start < rg[t].end, "C09: empty or reversed range");
      if t > 0 { assert!(rg[t - 1].end < rg[t].start, "C09: ranges overlap, touch or are not sorted"); }
      if rg[t].start <= c && c < rg[t].end { in_range += 1; }
      t += 1;
    }
    assert!((in_range == 1) == (st != ABSENT) && in_range <= 1, "C09: to_ranges does not cover exactly the covered deepest-level cells");
  }
}

/// Fixed-depth builder: exactly the pushed set, all carrying the flag; None iff nothing pushed. m <= 4 pushes.
pub fn p_fixed_builder(depth: u8, is_full: bool, cap: usize, m: usize, p0: u64, p1: u64, p2: u64, p3: u64, c: u64) {
  let nh = spec_n_hash(depth);
  if !(depth <= 29 && cap >= 1 && m <= 4 && c < nh) { return; }
  let ps = [p0, p1, p2, p3];
  let mut t = 0usize;
  while t < m { if ps[t] >= nh { return; } t += 1; }
  let mut b = BMOCBuilderFixedDepth::with_capacity(depth, is_full, cap);
  t = 0;
  while t < m { b.push(ps[t]); t += 1; }
  let res = b.to_bmoc();
  if m == 0 { assert!(res.is_none(), "C15: builder returns something although nothing was pushed"); return; }
  assert!(res.is_some(), "C15: builder returns nothing although cells were pushed");
  let bm = res.unwrap();
  assert!(bm.get_depth_max() == depth, "C15: builder output has the wrong depth_max");
  let (bad, sr, _) = spec_scan(depth, &bm.entries, c);
  assert!(bad.is_none(), "C15/C09: builder output is not well formed");
  let mut pushed = false;
  t = 0;
  while t < m { if ps[t] == c { pushed = true; } t += 1; }
  let expected = if pushed { if is_full { FULL } else { PARTIAL } } else { ABSENT };
  assert!(sr == expected, "C15: builder output does not cover exactly the pushed cells with the requested flag");
}

/// Inductive step of the fixed-depth builder across a buffer flush: an accumulated BMOC made of one (possibly merged, coarse) cell
/// (d0, h0) + a freshly filled buffer holding the cell p0 -> `drain_buffer` must return their union with the requested flag.
/// Solver side: the pre-state is constructed directly. Native side: the same pre-state is reached through the public API (push the
/// 4^(depth-d0) deepest cells of (d0, h0) in order with exactly that capacity -- the buffer fills up and is flushed into one merged
/// cell --, then push p0 and call to_bmoc).
pub fn p_fixed_merge(depth: u8, is_full: bool, d0: u8, h0: u64, p0: u64, c: u64) {
  let nh = spec_n_hash(depth);
  if !(depth <= 29 && d0 <= depth && depth - d0 <= 8 && h0 < spec_n_hash(d0) && p0 < nh && c < nh) { return; }
  let sh = 2 * (depth - d0) as u32;
  let bm = fixed_merge_run(depth, is_full, d0, h0, p0);
  assert!(bm.get_depth_max() == depth, "C15: builder output has the wrong depth_max");
  let (bad, sr, _) = spec_scan(depth, &bm.entries, c);
  assert!(bad.is_none(), "C15/C09: builder output is not well formed");
  let expected = if (c >> sh) == h0 || c == p0 { if is_full { FULL } else { PARTIAL } } else { ABSENT };
  assert!(sr == expected, "C15: builder output does not cover exactly the pushed cells with the requested flag");
}

#[cfg(kani)]
fn fixed_merge_run(depth: u8, is_full: bool, d0: u8, h0: u64, p0: u64) -> BMOC {
  let a = Ops { dm: depth, n: 1, d: [d0, 0, 0, 0], h: [h0, 0, 0, 0], f: [is_full, false, false, false] };
  let prev = bmoc_build(&a);
  let mut buffer: Vec<u64> = Vec::with_capacity(4);
  buffer.push(p0);
  let mut b = BMOCBuilderFixedDepth { depth, bmoc: Some(prev), is_full, buffer, sorted: true };
  b.drain_buffer();
  b.bmoc.take().unwrap()
}

#[cfg(not(kani))]
fn fixed_merge_run(depth: u8, is_full: bool, d0: u8, h0: u64, p0: u64) -> BMOC {
  let sh = 2 * (depth - d0) as u32;
  let n = 1usize << sh;
  let mut b = BMOCBuilderFixedDepth::with_capacity(depth, is_full, n);
  let mut k = 0u64;
  while k < n as u64 { b.push((h0 << sh) + k); k += 1; }
  b.push(p0);
  b.to_bmoc().expect("C15: builder returns nothing although cells were pushed")
}
