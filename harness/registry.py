"""Registry of properties and harnesses. One entry of PROPS per claimed property.

A harness = one bounded-model-checking query:
  name     wrapper fn generated into the injected module (also the evidence / log key)
  call     body of the wrapper: a call of a k_* function of harness/kani/<prop>.rs
  tiers    subset of ('quick', 'thorough')
  timeout  seconds (time-out => inconclusive, exit 2)
  mem_gb   address-space cap of the cbmc process
  unwind   #[kani::unwind(n)] (unwinding assertions are always on)
  stubs    [(original, replacement)] -> #[kani::stub]
  inputs   [(name, type)]: the FIRST kani::any() calls of the harness, in order = public inputs used for native replay
  replay   name of the native replay function (replay/src/main.rs dispatch)
  covers   cover!() descriptions that must be SATISFIED (vacuity witnesses)
  never    cover!() descriptions that must NOT be satisfiable (guard harnesses)
"""

Q = ('quick', 'thorough')
T = ('thorough',)


def H(name, call, tiers=Q, timeout=600, mem_gb=8, **kw):
    d = dict(name=name, call=call, tiers=tiers, timeout=timeout, mem_gb=mem_gb)
    d.update(kw)
    return d


PROPS = {}

# ------------------------------------------------------------------------------------------- C18
_c18 = []
for cls, lo, hi in (('empty', 0, 0), ('small', 1, 8), ('mediu', 9, 16), ('large', 17, 29)):
    _c18.append(H('c18_ij2h_' + cls, 'k_c18_ij2h(%d, %d);' % (lo, hi), unwind=33, timeout=300,
                  inputs=[('d', 'u8'), ('i', 'u32'), ('j', 'u32')], replay='c18_ij2h',
                  covers=['top i, deepest depth of the class', 'shallowest depth of the class'],
                  domain='depth symbolic in %d..=%d, all (i, j) < 2^depth' % (lo, hi)))
    _c18.append(H('c18_h2ij_' + cls, 'k_c18_h2ij(%d, %d);' % (lo, hi), unwind=33, timeout=300,
                  inputs=[('d', 'u8'), ('h', 'u64')], replay='c18_h2ij',
                  covers=['largest hash of the class'],
                  domain='depth symbolic in %d..=%d, all h < 4^depth (decode-first direction)' % (lo, hi)))
_c18 += [
    H('c18_xor_full', 'k_c18_xor();', unwind=33, timeout=300, inputs=[('i', 'u32'), ('j', 'u32')], replay='c18_xor',
      covers=['full width'], domain='public LargeZOCxor, all (i, j) in u32 x u32'),
    H('c18_lut_full', 'k_c18_lut_full();', unwind=33, timeout=300, inputs=[('i', 'u32'), ('j', 'u32')], replay='c18_lut_full',
      covers=['full width'], domain='public LargeZOC (LUT), all (i, j) in u32 x u32'),
    H('c18_uniq', 'k_c18_uniq();', timeout=300, inputs=[('d', 'u8'), ('h', 'u64')], replay='c18_uniq',
      covers=['last cell of depth 29', 'last base cell'], domain='depth symbolic 0..=29, all hash < 12*4^depth'),
    H('c18_uniq_inj', 'k_c18_uniq_inj();', timeout=300,
      inputs=[('d1', 'u8'), ('h1', 'u64'), ('d2', 'u8'), ('h2', 'u64')], replay='c18_uniq_inj',
      covers=['adjacent depths'], domain='two symbolic valid (depth, hash) pairs'),
    H('c18_uniq_guard', 'k_c18_uniq_guard(false);', timeout=120, should_panic=True,
      inputs=[('d', 'u8'), ('h', 'u64')], replay='c18_uniq_guard', replay_const={'ivoa': 0},
      never=['guard bypassed'], domain='depth symbolic > 29, all hash'),
    H('c18_uniq_ivoa_guard', 'k_c18_uniq_guard(true);', timeout=120, should_panic=True,
      inputs=[('d', 'u8'), ('h', 'u64')], replay='c18_uniq_guard', replay_const={'ivoa': 1},
      never=['guard bypassed'], domain='depth symbolic > 29, all hash'),
]
for _d in range(30):
    _c18.append(H('c18_uniq_layer_d%d' % _d, 'k_c18_uniq_layer(%d);' % _d, tiers=Q if _d in (0, 29) else T, timeout=300,
                  inputs=[('h', 'u64')], replay='c18_uniq_layer', replay_const={'d': _d}, covers=['last cell'],
                  domain='Layer of depth %d, all hash < 12*4^depth' % _d))
PROPS['C18'] = dict(
    inject=[dict(host='src/nested/mod.rs', mod='verif_c18', parts=['props/c18.rs', 'kani/c18.rs'])],
    harnesses=_c18,
    functions=['nested::zordercurve::get_zoc', 'EmptyZOC/SmallZOC/MediuZOC/LargeZOC::{ij2h,i02h,oj2h,h2ij,h2i0,ij2i,ij2j}',
               'LargeZOCxor::*', 'nested::{to_uniq,to_uniq_ivoa,from_uniq,from_uniq_ivoa}', 'Layer::{to_uniq,to_uniq_ivoa}'],
    bounds={'all': 'full machine width: every depth 0..=29 (symbolic inside each z-order class), every (i, j) < 2^depth, '
                   'every hash < 4^depth; oracle bit loop unwound 32 times (unwind 33, unwinding assertions on)'},
    outside='the BMI2 (pdep/pext) implementations: compiled only with target-feature=+bmi2, which neither the default build '
            'nor the test-suite uses; Kani has no model of the intrinsics',
    assumptions=['little-endian x86_64 target (as compiled by Kani); default build, no BMI2'],
)
