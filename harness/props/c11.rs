// C11 -- RING scheme for any NSIDE.

pub const C11_TOL: f64 = 4e-14;

/// Role of the open finding F4 (known_findings.json): polar-cap points on / within 2^-40 of a base-cell seam, and the corners at the
/// base of the caps (|y| within 2^-40 of 1, x within 2^-40 of an even integer).
pub fn f4_role(x: f64, y: f64) -> bool {
  let eps = 9.094947017729282e-13;   // 2^-40
  let ay = if y < 0.0 { -y } else { y };
  if ay <= 1.0 - eps { return false; }
  let mut q = (x * 0.5) as u64 as f64;
  if q > 3.0 { q = 3.0; }
  let u = x - (2.0 * q + 1.0);
  let au = if u < 0.0 { -u } else { u };
  // on the centre line of a base cell (in particular exactly at a pole) the position is not next to a seam
  au != 0.0 && au >= (2.0 - ay) - 2.0 * eps
}

pub fn c11_n_hash(nside: u32) -> u64 { 12 * (nside as u64) * (nside as u64) }

/// Native check of one position: range, containment (reference projection + RING centre), offsets, inverse.
#[cfg(not(kani))]
pub fn p_c11_point(nside: u32, lon: f64, lat: f64) {
  if !(nside >= 1 && nside <= (1u32 << 29) && lat >= -0.5 * REF_PI && lat <= 0.5 * REF_PI && lon.abs() <= 25.2) { return; }
  let (h, dx, dy) = hp::ring::hash_with_dxdy(nside, lon, lat);
  assert!(h < c11_n_hash(nside), "C11: ring hash out of range: nside {} lon {:e} ({:#x}) lat {:e} ({:#x}) hash {}", nside, lon, lon.to_bits(), lat, lat.to_bits(), h);
  assert!(hp::ring::hash(nside, lon, lat) == h, "C11: hash and hash_with_dxdy disagree");
  assert!(dx >= 0.0 && dx <= 1.0 && dy >= 0.0 && dy <= 1.0, "C11: offsets out of [0, 1]");
  let (x, y) = ref_proj(lon, lat);
  let (cx, cy) = hp::ring::center_of_projected_cell(nside, h);
  let e = ref_excess_center(cx, cy, 1.0 / nside as f64, x, y);
  assert!(e <= C11_TOL, "C11: the position is not inside the RING cell returned: nside {} lon {:e} ({:#x}) lat {:e} ({:#x}) hash {} excess {:e}", nside, lon, lon.to_bits(), lat, lat.to_bits(), h, e);
}

#[cfg(not(kani))]
pub fn p_c11_neighbourhood(nside: u32, lon: f64, lat: f64, w: i64) {
  let mut a = -w;
  while a <= w {
    let lo = f64::from_bits((lon.to_bits() as i64).wrapping_add(a) as u64);
    let mut b = -w;
    while b <= w {
      let la = f64::from_bits((lat.to_bits() as i64).wrapping_add(b) as u64);
      if lo.is_finite() && la.is_finite() { p_c11_point(nside, lo, la); }
      b += 1;
    }
    a += 1;
  }
}

/// Pull back of a plane point to the sphere (public unproj) and search around it, plus the seam meridians at that latitude.
#[cfg(not(kani))]
pub fn p_c11_pullback(nside: u32, x: f64, y: f64) {
  if !(x.is_finite() && y >= -2.0 && y <= 2.0) { return; }
  let xm = x.rem_euclid(8.0);
  let (lon, lat) = hp::unproj(xm, y);
  p_c11_neighbourhood(nside, lon, lat, 16);
  if x < 0.0 && x >= -8.0 { let (lon2, lat2) = hp::unproj(x, y); p_c11_neighbourhood(nside, lon2, lat2, 16); }   // negative longitudes
  p_c11_neighbourhood(nside, -0.0, lat, 4);
  let mut k = 0;
  while k <= 8 { p_c11_neighbourhood(nside, 0.25 * REF_PI * k as f64, lat, 6); k += 1; }
}

/// Cell-number based clauses (no libm in the oracle): centre of h hashes to h is decided in the plane by the solver; natively
/// through the real proj / unproj. Order of centres; ring sizes follow from the strict order inside a ring.
pub fn p_c11_order(nside: u32, r: u64) {
  if !(nside >= 1 && nside <= (1u32 << 29) && r < c11_n_hash(nside) - 1) { return; }
  let (x0, y0) = hp::ring::center_of_projected_cell(nside, r);
  let (x1, y1) = hp::ring::center_of_projected_cell(nside, r + 1);
  assert!(x0 >= 0.0 && x0 < 8.0 && x1 >= 0.0 && x1 < 8.0 && y0 <= 2.0 && y1 >= -2.0, "C11: RING centre outside the projection domain");
  assert!(y1 < y0 || (y1 == y0 && x1 > x0), "C11: RING centres are not ordered by non-increasing latitude then increasing longitude");
}

#[cfg(not(kani))]
pub fn p_c11_center(nside: u32, h: u64) {
  if !(nside >= 1 && nside <= (1u32 << 29) && h < c11_n_hash(nside)) { return; }
  let (lon, lat) = hp::ring::center(nside, h);
  assert!(hp::ring::hash(nside, lon, lat) == h, "C11: hashing the centre of RING cell {} (nside {}) does not return it", h, nside);
  let (hh, dx, dy) = hp::ring::hash_with_dxdy(nside, lon, lat);
  assert!(hh == h && (dx - 0.5).abs() < 1e-6 && (dy - 0.5).abs() < 1e-6, "C11: offsets of a cell centre are not (0.5, 0.5)");
  if h + 1 < c11_n_hash(nside) { p_c11_order(nside, h); }
}

pub fn p_c11_guard(nside: u32, which: u8, h: u64, lon: f64, lat: f64) {
  match which {
    0 => { if h < c11_n_hash(nside) { return; } let _ = hp::ring::center(nside, h); }
    1 => { if h < c11_n_hash(nside) { return; } let _ = hp::ring::vertices(nside, h); }
    2 => { if h < c11_n_hash(nside) { return; } let _ = hp::ring::sph_coo(nside, h, 0.5, 0.5); }
    _ => { if lat >= -0.5 * REF_PI && lat <= 0.5 * REF_PI { return; } let _ = hp::ring::hash(nside, lon, lat); }
  }
  panic!("C11-GUARD-NOT-TRIGGERED: out-of-range cell number / latitude accepted");
}
