// Cut at Layer::hash_with_dxdy (decided by C03): bilinear_interpolation only consumes the cell number and the two offsets, so the
// harness provides them: every cell of the depth x every offset pair on the 1/256 lattice of [0, 1]^2 (integers -> structurally
// narrow doubles: the 32 weight products of the code stay small; with arbitrary doubles the instance has 45 M clauses).
use hp::nested::Layer;
static mut CUT: (u64, u64, u64) = (0, 0, 0);
pub(crate) fn stub_hash_with_dxdy(_l: &Layer, _lon: f64, _lat: f64) -> (u64, f64, f64) {
  unsafe { (CUT.0, f64::from_bits(CUT.1), f64::from_bits(CUT.2)) }
}

/// region: 0 = every cell, 1 = only the cells lacking a S / E / N / W neighbour
/// offsets on the lattice of step 2^-bits (bits = 4: 17 x 17 offsets, bits = 8: 257 x 257); a, b are in units of 1/256 in both cases
fn k_c19_cell(depth: u8, region: u8, bits: u8) {
  let h: u64 = kani::any();
  let a: u16 = kani::any();
  let b: u16 = kani::any();
  kani::assume(h < spec_n_hash(depth) && a <= 256 && b <= 256);
  if bits < 8 { let m = (1u16 << (8 - bits)) - 1; kani::assume(a & m == 0 && b & m == 0); }
  let dx = a as f64 * 0.00390625;      // a / 256, exact
  let dy = b as f64 * 0.00390625;
  unsafe { CUT = (h, dx.to_bits(), dy.to_bits()); }
  let layer = hp::nested::get_or_create(depth);
  if region == 1 {
    let m = layer.neighbours(h, false);
    kani::assume(m.get(MainWind::S).is_none() || m.get(MainWind::E).is_none() || m.get(MainWind::N).is_none() || m.get(MainWind::W).is_none());
  }
  kani::cover!(a > 128 && b > 128, "north quadrant");
  kani::cover!(a < 128 && b > 128, "west quadrant");
  kani::cover!(a == 128 && b == 128, "cell centre");
  let res = layer.bilinear_interpolation(0.0, 0.0);
  c19_check(depth, &res, h, dx, dy);
}
