// region: 0 = north polar cap, 1 = equatorial region, 2 = south polar cap (RING index ranges)
fn c10_region_ok(depth: u8, r: u64, region: u8) -> bool {
  let n = 1u64 << depth;
  let first_eqr = 2 * n * (n + 1);
  let first_spc = spec_n_hash(depth) - first_eqr;
  match region { 0 => r < first_eqr, 1 => r >= first_eqr && r < first_spc, _ => r >= first_spc && r < spec_n_hash(depth) }
}

fn k_c10_ring(depth: u8, region: u8) {
  let r: u64 = kani::any();
  kani::assume(c10_region_ok(depth, r, region));
  kani::cover!(true, "region non empty");
  p_c10_ring(depth, r);
}

/// same as k_c10_ring, the region cut in three by the thirds of the whole index range (any partition is exhaustive)
fn k_c10_ring_part(depth: u8, region: u8, part: u8) {
  let r: u64 = kani::any();
  kani::assume(c10_region_ok(depth, r, region));
  let third = spec_n_hash(depth) / 3;
  kani::assume(r >= third * part as u64 && (part == 2 || r < third * (part as u64 + 1)));
  kani::cover!(true, "region non empty");
  p_c10_ring(depth, r);
}

fn k_c10_nested(depth: u8, bclass: u8) {
  let h: u64 = kani::any();
  kani::assume(h < spec_n_hash(depth) && (h >> (2 * depth as u32)) / 4 == bclass as u64);
  kani::cover!(true, "region non empty");
  p_c10_nested(depth, h);
}

fn k_c10_centres(depth: u8, region: u8) {
  let r: u64 = kani::any();
  kani::assume(c10_region_ok(depth, r, region));
  kani::cover!(true, "region non empty");
  p_c10_centres(depth, r);
}

/// Ring-boundary class of the polar caps: the last cell of ring k-1 / first cell of ring k (north), and their mirror images (south).
fn k_c10_boundary(depth: u8, south: bool) {
  let r: u64 = kani::any();
  let k: u64 = kani::any();
  let e: u64 = kani::any();
  kani::assume(k >= 1 && k <= (1u64 << depth) && e <= 1);
  let t = 2 * k * (k + 1) - 1 + e;      // north: index of the last cell of ring k-1 (e = 0) or the first of ring k (e = 1)
  kani::assume(r == if south { spec_n_hash(depth) - 1 - t } else { t });
  kani::cover!(e == 0 && k == (1u64 << depth), "last cell of the last polar ring");
  kani::cover!(e == 1 && k == 1, "first cell of the second ring");
  p_c10_ring(depth, r);
}

/// Polar-cap window at a deep depth: every RING index of the rings k0 .. k0+w-1 (counted from the pole), north or south.
/// The high bits of every intermediate value are then fixed, which keeps the float sqrt, the products and the division
/// of from_ring within reach of the SAT solver.
fn k_c10_window(depth: u8, k0: u64, w: u64, south: bool) {
  let r: u64 = kani::any();
  let lo = 2 * k0 * (k0 + 1);
  let hi = 2 * (k0 + w) * (k0 + w + 1);
  let nh = spec_n_hash(depth);
  kani::assume(if south { r < nh && nh - 1 - r >= lo && nh - 1 - r < hi } else { r >= lo && r < hi });
  kani::cover!(if south { nh - 1 - r == hi - 1 } else { r == hi - 1 }, "last cell of the last ring of the window");
  kani::cover!(if south { nh - 1 - r == lo } else { r == lo }, "first cell of the first ring of the window");
  p_c10_ring(depth, r);
  p_c10_centres(depth, r);
}

/// Deep polar caps, ring ends: the first `t` and the last `t` cells of each of the rings k0 .. k0+w-1 (ring index from the pole).
/// These are the inputs on which the float square root of the ring-index computation decides.
fn k_c10_ringends(depth: u8, k0: u64, w: u64, t: u64, south: bool) {
  let r: u64 = kani::any();
  let k: u64 = kani::any();
  let e: u64 = kani::any();
  kani::assume(k >= k0 && k < k0 + w && e < 2 * t);
  let first = 2 * k * (k + 1);             // first cell of ring k
  let next = 2 * (k + 1) * (k + 2);        // first cell of ring k + 1
  let rr = if e < t { first + e } else { next - 1 - (e - t) };
  let nh = spec_n_hash(depth);
  kani::assume(r == if south { nh - 1 - rr } else { rr });
  kani::cover!(k == k0 + w - 1 && e == t, "last cell of the last ring of the window");
  kani::cover!(k == k0 && e == 0, "first cell of the first ring of the window");
  p_c10_ring(depth, r);
}
