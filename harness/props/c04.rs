// C04 -- neighbours are exactly the geometrically adjacent cells, correctly labelled.
use hp::compass_point::MainWind;

fn c04_dir(k: u8) -> MainWind {
  match k { 0 => MainWind::S, 1 => MainWind::SE, 2 => MainWind::E, 3 => MainWind::SW,
            4 => MainWind::NE, 5 => MainWind::W, 6 => MainWind::NW, _ => MainWind::N }
}

/// `a`: the cell, `c`: any other cell of the same depth (universally quantified by the solver).
pub fn p_c04_pair(depth: u8, a: u64, c: u64) {
  let nh = spec_n_hash(depth);
  if !(depth <= 29 && a < nh && c < nh && c != a) { return; }
  let layer = hp::nested::get_or_create(depth);
  let map = layer.neighbours(a, false);
  let va = plane_cell_vertices(depth, a);   // [S, E, N, W]
  let vc = plane_cell_vertices(depth, c);
  let mut n_present = 0u32;
  let mut c_in_map = false;
  let mut k = 0u8;
  while k < 8 {
    let e = map.get(c04_dir(k)).map(|v| *v);
    let single = layer.neighbour(a, c04_dir(k));
    assert!(single == e, "C04: neighbour(h, dir) disagrees with neighbours(h)");
    if let Some(h) = e {
      n_present += 1;
      assert!(h < nh, "C04: neighbour cell number out of range");
      assert!(h != a, "C04: a cell is listed as its own neighbour");
      if h == c { c_in_map = true; }
      let vh = plane_cell_vertices(depth, h);
      let shared = plane_n_shared(&va, &vh);
      match k {
        // cardinal: shares exactly that vertex
        0 => assert!(shared == 1 && plane_has_vertex(&vh, va[0]), "C04: S neighbour does not share exactly the S vertex"),
        2 => assert!(shared == 1 && plane_has_vertex(&vh, va[1]), "C04: E neighbour does not share exactly the E vertex"),
        7 => assert!(shared == 1 && plane_has_vertex(&vh, va[2]), "C04: N neighbour does not share exactly the N vertex"),
        5 => assert!(shared == 1 && plane_has_vertex(&vh, va[3]), "C04: W neighbour does not share exactly the W vertex"),
        // ordinal: shares exactly the two vertices of that edge
        1 => assert!(shared == 2 && plane_has_vertex(&vh, va[0]) && plane_has_vertex(&vh, va[1]), "C04: SE neighbour does not share exactly the SE edge"),
        3 => assert!(shared == 2 && plane_has_vertex(&vh, va[0]) && plane_has_vertex(&vh, va[3]), "C04: SW neighbour does not share exactly the SW edge"),
        4 => assert!(shared == 2 && plane_has_vertex(&vh, va[2]) && plane_has_vertex(&vh, va[1]), "C04: NE neighbour does not share exactly the NE edge"),
        _ => assert!(shared == 2 && plane_has_vertex(&vh, va[2]) && plane_has_vertex(&vh, va[3]), "C04: NW neighbour does not share exactly the NW edge"),
      }
    } else {
      assert!(k == 0 || k == 2 || k == 5 || k == 7, "C04: an ordinal (edge) neighbour is missing");
    }
    k += 1;
  }
  // 8 neighbours, minus one per vertex of the cell sitting on one of the 8 three-cell points
  let mut n3 = 0u32;
  let mut v = 0;
  while v < 4 { if plane_is_three_cell_point(depth, va[v]) { n3 += 1; } v += 1; }
  assert!(n_present == 8 - n3, "C04: wrong number of neighbours (8, 7 at a three-cell point, 6 at depth 0)");
  // exactly the adjacent cells: for EVERY other cell c, c touches a  <=>  c is in the map
  let touches = plane_n_shared(&va, &vc) > 0;
  assert!(touches == c_in_map, "C04: the neighbour map is not exactly the set of cells touching the cell");
}

pub fn p_c04_guard(depth: u8, a: u64, single: bool, k: u8) {
  if !(depth <= 29 && a >= spec_n_hash(depth)) { return; }
  let layer = hp::nested::get_or_create(depth);
  if single { let _ = layer.neighbour(a, c04_dir(k & 7)); } else { let _ = layer.neighbours(a, false); }
  panic!("C04-GUARD-NOT-TRIGGERED: out-of-range cell number accepted by neighbours");
}
