#!/usr/bin/env python3
"""Driver of the solver-based checks (see DESIGN.md section 2).

  ./check <Cxx> [--tier quick|thorough] [--replay <file>] [--only <substr>] [--keep]

Exit codes: 0 = every harness of the tier decided UNSAT (property holds inside the
stated bounds; only listed KNOWN-FINDINGs otherwise); 1 = a counter-example that
reproduces natively against /repo and is not listed (VIOLATION line printed);
2 = inconclusive (time-out, out of memory, harness no longer compiles against
the code, unwinding bound too small, vacuous harness, counter-example that does
not reproduce).
"""
import sys, os, json, re, time, shutil, hashlib, subprocess, tempfile, resource, signal
import concurrent.futures as cf

VERIF = os.path.dirname(os.path.dirname(os.path.abspath(__file__)))
REPO = os.environ.get('VERIF_REPO', '/repo')
sys.path.insert(0, os.path.join(VERIF, 'harness'))

KANI_FLAGS = ['-Z', 'stubbing', '-Z', 'unstable-options']
TOTAL_MEM_GB = int(os.environ.get('VERIF_TOTAL_MEM_GB', '56'))


def log(*a):
    print(*a, flush=True)


# ----------------------------------------------------------------------------------------------
# snapshot + injection
# ----------------------------------------------------------------------------------------------

def sha256(path):
    h = hashlib.sha256()
    with open(path, 'rb') as f:
        h.update(f.read())
    return h.hexdigest()


def snapshot(scratch):
    snap = os.path.join(scratch, 'snap')
    os.makedirs(snap)
    for f in ('Cargo.toml', 'Cargo.lock'):
        shutil.copy(os.path.join(REPO, f), os.path.join(snap, f))
    for d in ('src', 'benches'):
        if os.path.isdir(os.path.join(REPO, d)):
            shutil.copytree(os.path.join(REPO, d), os.path.join(snap, d))
    hashes = {}
    for root, _, files in os.walk(os.path.join(snap, 'src')):
        for f in sorted(files):
            p = os.path.join(root, f)
            hashes[os.path.relpath(p, snap)] = sha256(p)
    # make sure cargo never goes to the network from the scratch copy
    os.makedirs(os.path.join(snap, '.cargo'), exist_ok=True)
    with open(os.path.join(snap, '.cargo', 'config.toml'), 'w') as f:
        f.write('[net]\noffline = true\n')
    return snap, hashes


def module_target(host, mod):
    """Path of the file a `mod <mod>;` declared in `host` resolves to, and the rust path of it."""
    d, base = os.path.split(host)
    rel = d[len('src'):].strip('/')
    parts = [p for p in rel.split('/') if p]
    if base in ('lib.rs', 'mod.rs'):
        path = os.path.join(d, mod + '.rs')
    else:
        stem = base[:-3]
        path = os.path.join(d, stem, mod + '.rs')
        parts.append(stem)
    return path, '::'.join(parts + [mod])


def gen_wrappers(prop, harnesses):
    out = ['\n// ---- generated harness wrappers ----\n']
    for h in harnesses:
        out.append('#[kani::proof]')
        if h.get('unwind') is not None:
            out.append('#[kani::unwind(%d)]' % int(os.environ.get('VERIF_UNWIND_OVERRIDE', h['unwind'])))
        if h.get('should_panic'):
            out.append('#[kani::should_panic]')
        for (orig, repl) in h.get('stubs', []):
            out.append('#[kani::stub(%s, %s)]' % (orig, repl))
        if h.get('solver'):
            out.append('#[kani::solver(%s)]' % h['solver'])
        out.append('fn %s() { %s }\n' % (h['name'], h['call']))
    return '\n'.join(out)


def inject(snap, prop, harnesses):
    """Write the harness modules of `prop` into the snapshot. Returns {harness name: full rust path}."""
    hdir = os.path.join(VERIF, 'harness')
    # common module at the crate root
    common_src = ''
    for part in prop.get('common', ['common/oracles.rs', 'common/libm.rs']):
        with open(os.path.join(hdir, part)) as f:
            common_src += '// ---- %s ----\n' % part + f.read() + '\n'
    with open(os.path.join(snap, 'src', 'verif_common.rs'), 'w') as f:
        f.write('#![allow(dead_code, unused_imports, unused_variables, unused_mut, unused_parens)]\n' + common_src)
    with open(os.path.join(snap, 'src', 'lib.rs'), 'a') as f:
        f.write('\n#[cfg(kani)]\npub(crate) mod verif_common;\n')
    names = {}
    for inj in prop['inject']:
        path, rust_path = module_target(inj['host'], inj['mod'])
        src = ('#![allow(dead_code, unused_imports, unused_variables, unused_mut, unused_parens)]\n'
               'use crate as hp;\nuse crate::verif_common::*;\n')
        for part in inj['parts']:
            with open(os.path.join(hdir, part)) as f:
                src += '// ---- %s ----\n' % part + f.read() + '\n'
        mine = [h for h in harnesses if h.get('mod', prop['inject'][0]['mod']) == inj['mod']]
        src += gen_wrappers(prop, mine)
        full = os.path.join(snap, path)
        os.makedirs(os.path.dirname(full), exist_ok=True)
        with open(full, 'w') as f:
            f.write(src)
        with open(os.path.join(snap, inj['host']), 'a') as f:
            f.write('\n#[cfg(kani)]\nmod %s;\n' % inj['mod'])
        for h in mine:
            names[h['name']] = rust_path + '::' + h['name']
    return names


# ----------------------------------------------------------------------------------------------
# running kani
# ----------------------------------------------------------------------------------------------

def _limits(mem_gb):
    def f():
        os.setsid()
        if mem_gb:
            b = int(mem_gb * (1 << 30))
            resource.setrlimit(resource.RLIMIT_AS, (b, b))
    return f


RUNNING = set()
SCRATCH = [None]
ONLY = [None]


def _on_term(signum, frame):
    for pid in list(RUNNING):
        try:
            os.killpg(pid, signal.SIGKILL)
        except Exception:
            pass
    if SCRATCH[0]:
        shutil.rmtree(SCRATCH[0], ignore_errors=True)
    os._exit(2)


def run_cmd(cmd, cwd, timeout, mem_gb=None, logfile=None, env=None):
    e = dict(os.environ)
    e['CARGO_NET_OFFLINE'] = 'true'
    e.pop('RUSTFLAGS', None)
    if env:
        e.update(env)
    t0 = time.time()
    out = open(logfile, 'wb') if logfile else subprocess.PIPE
    p = subprocess.Popen(cmd, cwd=cwd, stdout=out, stderr=subprocess.STDOUT, env=e,
                         preexec_fn=_limits(mem_gb))
    timed_out = False
    RUNNING.add(p.pid)
    try:
        stdout, _ = p.communicate(timeout=timeout)
    except subprocess.TimeoutExpired:
        timed_out = True
        try:
            os.killpg(p.pid, signal.SIGKILL)
        except ProcessLookupError:
            pass
        stdout, _ = p.communicate()
    RUNNING.discard(p.pid)
    if logfile:
        out.close()
        with open(logfile, 'r', errors='replace') as f:
            text = f.read()
    else:
        text = stdout.decode(errors='replace')
    return p.returncode, text, time.time() - t0, timed_out


def kani_build(snap, target, logdir):
    """Compile the snapshot with all injected harnesses once (the later per-harness runs find it fresh)."""
    cmd = ['cargo', 'kani'] + KANI_FLAGS + ['--target-dir', target, '--harness', 'verif_no_such_harness__', '--exact']
    rc, text, dt, to = run_cmd(cmd, snap, 1800, None, os.path.join(logdir, 'build.log'))
    if 'Failed to match the following harness' in text or 'No proof harnesses' in text:
        return True, dt, ''
    errs = [l for l in text.splitlines() if l.startswith('error')]
    return False, dt, '\n'.join(errs[:20]) or text[-2000:]


CHECK_RE = re.compile(r'^Check (\d+): (\S+)\n\t - Status: (\w+)\n\t - Description: "(.*)"\n(?:\t - Location: (.*)\n)?', re.M)


def parse_kani(text):
    r = {'checks': 0, 'failed': [], 'covers': {}, 'verdict': None, 'vars': 0, 'clauses': 0,
         'solver_s': 0.0, 'symex_s': 0.0, 'functions': set(), 'unreachable': 0, 'undetermined': 0,
         'program_steps': 0, 'vccs': 0}
    for m in CHECK_RE.finditer(text):
        idx, name, status, desc, loc = m.groups()
        if '.cover.' in name:
            r['covers'][desc.strip('"')] = status
            continue
        r['checks'] += 1
        if loc and ' in function ' in loc:
            r['functions'].add(loc.split(' in function ')[1].strip())
        if status == 'FAILURE':
            r['failed'].append({'name': name, 'desc': desc, 'loc': loc or ''})
        elif status == 'UNREACHABLE':
            r['unreachable'] += 1
        elif status == 'UNDETERMINED':
            r['undetermined'] += 1
    for m in re.finditer(r'(\d+) variables, (\d+) clauses', text):
        r['vars'] = max(r['vars'], int(m.group(1)))
        r['clauses'] = max(r['clauses'], int(m.group(2)))
    for m in re.finditer(r'Runtime Solver: ([0-9.e+-]+)s', text):
        r['solver_s'] += float(m.group(1))
    for m in re.finditer(r'Runtime Symex: ([0-9.e+-]+)s', text):
        r['symex_s'] += float(m.group(1))
    m = re.search(r'size of program expression: (\d+) steps', text)
    if m:
        r['program_steps'] = int(m.group(1))
    m = re.search(r'Generated (\d+) VCC\(s\), (\d+) remaining', text)
    if m:
        r['vccs'] = int(m.group(1))
    m = re.search(r'VERIFICATION:- (\w+)', text)
    if m:
        r['verdict'] = m.group(1)
    r['stubs_applied'] = sorted(set(re.findall(r'- Stub: (.*)', text)))
    return r


def parse_playback(text):
    """Returns a list of (check kind, description, [bytes,...]) from the concrete playback tests printed by Kani."""
    tests = []
    for m in re.finditer(r'/// Check for `(\w+)`: (.*?)\n\n#\[test\]\nfn \w+\(\) \{\n\s+let concrete_vals: Vec<Vec<u8>> = vec!\[(.*?)\n\s+\];', text, re.S):
        kind, desc, body = m.groups()
        vals = []
        for vm in re.finditer(r'vec!\[([0-9, ]*)\]', body):
            s = vm.group(1).strip()
            vals.append(bytes(int(x) for x in s.split(',') if x.strip()) if s else b'')
        tests.append((kind, desc.split('\n')[0], vals))
    return tests


def decode_inputs(sig, vals):
    """Decode the first len(sig) byte vectors as the declared public inputs."""
    import struct
    out = {}
    for (name, ty), b in zip(sig, vals):
        if ty == 'f64':
            v = struct.unpack('<d', b)[0]
            out[name] = {'f64_bits': '0x%016x' % struct.unpack('<Q', b)[0], 'value': repr(v)}
        elif ty == 'bool':
            out[name] = bool(b[0] & 1)
        elif ty in ('u8', 'u16', 'u32', 'u64', 'usize'):
            out[name] = int.from_bytes(b, 'little')
        elif ty in ('i8', 'i16', 'i32', 'i64'):
            out[name] = int.from_bytes(b, 'little', signed=True)
        else:
            out[name] = list(b)
    return out


def resolve_unwindset(h, full_name, snap, target, logdir):
    """Map {'pretty::function#k': n} to CBMC loop identifiers read from the harness' goto binary (cbmc --show-loops)."""
    import glob
    cmd = ['cargo', 'kani'] + KANI_FLAGS + ['--only-codegen', '--target-dir', target, '--harness', full_name, '--exact']
    run_cmd(cmd, snap, 1800, None, os.path.join(logdir, h['name'] + '.codegen.log'))
    pat = os.path.join(target, 'kani', '*', 'debug', 'build', 'cdshealpix', '*', 'out', '*%d%s.out' % (len(h['name']), h['name']))
    files = glob.glob(pat)
    if not files:
        return None, 'goto binary of %s not found' % h['name']
    p = subprocess.run(['cbmc', files[0], '--show-loops'], capture_output=True, text=True, timeout=600)
    loops = {}
    byfunc = {}
    for m in re.finditer(r'^Loop (\S+?)\.(\d+):\n  file (\S+) line (\d+)(?: column (\d+))? function (\S+)', p.stdout, re.M):
        ident, idx, f, line, col, pretty = m.groups()
        byfunc.setdefault(pretty, []).append((int(line), int(col or 0), '%s.%s' % (ident, idx)))
    # key 'pretty::function#k' = k-th loop of the function in source order (stable under edits that keep the loop order)
    for pretty, lst in byfunc.items():
        for k, (line, col, lid) in enumerate(sorted(lst)):
            loops['%s#%d' % (pretty, k)] = lid
    with open(os.path.join(logdir, h['name'] + '.loops'), 'w') as f:
        for k in sorted(loops):
            f.write('%s  %s\n' % (k, loops[k]))
    items = []
    missing = []
    for k, n in h['unwindset'].items():
        found = [lid for pk, lid in loops.items() if pk == k or (k.endswith('#*') and pk.rsplit('#', 1)[0] == k[:-2])
                 or (k.endswith('::*') and pk.startswith(k[:-1]))]
        if not found:
            missing.append(k)
        for lid in found:
            items.append('%s:%d' % (lid, n))
    return items, missing


def run_harness(h, full_name, snap, target, logdir, playback=False):
    cmd = ['cargo', 'kani'] + KANI_FLAGS
    if h.get('unwindset') and 'cbmc_args_resolved' not in h:
        items, missing = resolve_unwindset(h, full_name, snap, target, logdir)
        if items is None:
            return {'name': h['name'], 'status': 'ERROR', 'detail': 'cannot resolve the unwindset: ' + str(missing), 'checks': 0, 'vars': 0,
                    'clauses': 0, 'solver_s': 0.0, 'wall_s': 0.0, 'covers': {}, 'functions': [], 'unreachable': 0, 'failed': []}
        else:
            # a pattern that matches no loop is tolerated (the loop may have been optimised away / not reachable)
            h['unwindset_missing'] = missing
            h['cbmc_args_resolved'] = list(h.get('cbmc_args', [])) + (['--unwindset', ','.join(items)] if items else [])
    if playback:
        cmd += ['-Z', 'concrete-playback', '--concrete-playback=print']
    cmd += ['--target-dir', target, '--harness', full_name, '--exact']
    if h.get('solver_cli'):
        cmd += ['--solver', h['solver_cli']]
    cargs = h.get('cbmc_args_resolved', h.get('cbmc_args'))
    if cargs:
        cmd += ['--cbmc-args'] + cargs
    lf = os.path.join(logdir, h['name'] + ('.playback' if playback else '') + '.log')
    # the playback re-run makes kani-driver parse the full CBMC trace: give it more address space
    mem = h.get('mem_gb', 12) if not playback else max(28, 3 * h.get('mem_gb', 12))
    rc, text, dt, timed_out = run_cmd(cmd, snap, h['timeout'] * (2 if playback else 1), mem, lf)
    res = parse_kani(text)
    res.update({'name': h['name'], 'wall_s': round(dt, 2), 'rc': rc, 'timed_out': timed_out, 'log': lf})
    if playback:
        res['playback'] = parse_playback(text)
    # classification
    if timed_out:
        res['status'] = 'TIMEOUT'
    elif re.search(r'r[au]n out of memory|std::bad_alloc|memory exhausted', text) and not res['failed']:
        res['status'] = 'MEMOUT'
        res['detail'] = 'the back end ran out of memory under the address-space cap'
    elif 'error: could not compile' in text or re.search(r'^error(\[E\d+\])?:', text, re.M) and res['verdict'] is None:
        res['status'] = 'COMPILE_ERROR'
        res['detail'] = '\n'.join([l for l in text.splitlines() if l.startswith('error')][:10])
    elif res['verdict'] is None:
        # out of memory (address-space cap) is resource exhaustion like a timeout; anything else is a crash of the tool chain
        oom = re.search(r'bad_alloc|[Oo]ut of memory|memory exhausted|Cannot allocate memory|SIGKILL|signal: 9|signal: 6', text) is not None
        res['status'] = 'MEMOUT' if oom else 'ERROR'
        res['detail'] = text[-1500:]
    else:
        unwind_fail = [f for f in res['failed'] if 'unwinding assertion' in f['desc'] or 'recursion unwinding' in f['desc']]
        other_fail = [f for f in res['failed'] if f not in unwind_fail]
        if h.get('should_panic'):
            # Kani reports SUCCESSFUL iff at least one panic is reachable and nothing else fails;
            # the wrapper body additionally asserts that the code after the call is unreachable.
            res['status'] = 'PASS' if res['verdict'] == 'SUCCESSFUL' else 'FAIL'
            res['prop_failures'] = other_fail
        elif res['verdict'] == 'SUCCESSFUL':
            res['status'] = 'PASS'
        elif other_fail:
            res['status'] = 'FAIL'
            res['prop_failures'] = other_fail
        elif unwind_fail:
            res['status'] = 'UNWIND'
            res['detail'] = unwind_fail[0]['desc'] + ' @ ' + unwind_fail[0]['loc']
        else:
            res['status'] = 'ERROR'
            res['detail'] = text[-1500:]
    # vacuity: every declared cover must be SATISFIED, every 'never' cover must not be
    if res['status'] == 'PASS':
        for c in h.get('covers', []):
            if res['covers'].get(c) != 'SATISFIED':
                res['status'] = 'VACUOUS'
                res['detail'] = 'cover %r is %s' % (c, res['covers'].get(c))
        for c in h.get('never', []):
            if res['covers'].get(c) == 'SATISFIED':
                res['status'] = 'FAIL'
                res['prop_failures'] = [{'name': 'cover', 'desc': 'reachable although it must not be: ' + c, 'loc': ''}]
                res['never_hit'] = c
    res['functions'] = sorted(res['functions'])
    return res


def run_harness_own_target(h, full_name, snap, scratch, logdir, keep=False, playback=False):
    """Each harness gets its own cargo target directory (Kani recompiles the crate for each harness filter; sharing one
    directory between concurrent runs would race on the crate artifacts). Removed as soon as the run is over."""
    target = os.path.join(scratch, 't-' + h['name'] + ('-pb' if playback else ''))
    try:
        return run_harness(h, full_name, snap, target, logdir, playback=playback)
    finally:
        if not keep:
            shutil.rmtree(target, ignore_errors=True)


# ----------------------------------------------------------------------------------------------
# native replay
# ----------------------------------------------------------------------------------------------

REPLAY_DIR = [os.path.join(VERIF, 'replay')]


def replay_prepare(scratch):
    """With VERIF_REPO pointing to another tree (mutant testing), use a private copy of the replay crate that depends on that tree."""
    if os.path.realpath(REPO) == '/repo':
        return
    rdir = os.path.join(scratch, 'replay')
    shutil.copytree(os.path.join(VERIF, 'replay'), rdir, ignore=shutil.ignore_patterns('target'))
    ct = os.path.join(rdir, 'Cargo.toml')
    with open(ct) as f:
        t = f.read()
    with open(ct, 'w') as f:
        f.write(t.replace('path = "/repo"', 'path = "%s"' % os.path.realpath(REPO)))
    with open(os.path.join(rdir, 'src', 'main.rs')) as f:
        m = f.read()
    with open(os.path.join(rdir, 'src', 'main.rs'), 'w') as f:
        f.write(m.replace('env!("CARGO_MANIFEST_DIR"), "/../harness/', '"%s/harness/' % VERIF))
    REPLAY_DIR[0] = rdir


def replay_build():
    """(Re)build the native replay binary against /repo's working tree, dev and release profile."""
    rdir = REPLAY_DIR[0]
    ok = True
    msgs = []
    for prof in ([], ['--release']):
        rc, text, dt, to = run_cmd(['cargo', 'build', '--offline'] + prof, rdir, 900)
        if rc != 0:
            ok = False
            msgs.append(text[-1500:])
    return ok, '\n'.join(msgs)


def replay_native(case):
    """Run one replay case {'fn':..., 'args': {...}} in both profiles. Returns (reproduced, detail)."""
    rdir = REPLAY_DIR[0]
    results = {}
    for prof in ('debug', 'release'):
        exe = os.path.join(rdir, 'target', prof, 'replay')
        if not os.path.exists(exe):
            results[prof] = {'rc': None, 'out': 'replay binary missing'}
            continue
        try:
            p = subprocess.run([exe, json.dumps(case)], capture_output=True, text=True, timeout=1800)
        except subprocess.TimeoutExpired:
            results[prof] = {'rc': None, 'out': 'replay timed out'}
            continue
        results[prof] = {'rc': p.returncode, 'out': (p.stdout + p.stderr)[-1500:]}
    reproduced = any(r['rc'] == 1 for r in results.values())
    return reproduced, results


# ----------------------------------------------------------------------------------------------
# known findings
# ----------------------------------------------------------------------------------------------

def load_known():
    p = os.path.join(VERIF, 'known_findings.json')
    if not os.path.exists(p):
        return []
    with open(p) as f:
        return json.load(f).get('findings', [])


# ----------------------------------------------------------------------------------------------
# main
# ----------------------------------------------------------------------------------------------

def main():
    import argparse
    ap = argparse.ArgumentParser()
    ap.add_argument('prop')
    ap.add_argument('--tier', default=os.environ.get('VERIF_TIER', 'quick'), choices=['quick', 'thorough', 'extended'])
    ap.add_argument('--replay')
    ap.add_argument('--only', help='run only harnesses whose name contains this substring')
    ap.add_argument('--keep', action='store_true', help='keep the scratch directory')
    ap.add_argument('--jobs', type=int, default=int(os.environ.get('VERIF_JOBS', '0')))
    args = ap.parse_args()
    seed = int(os.environ.get('VERIF_SEED', '0') or 0)

    import registry
    pid = args.prop.upper()
    if pid not in registry.PROPS:
        log('unknown or not-applicable property', pid)
        return 2
    prop = registry.PROPS[pid]

    if args.replay:
        return do_replay_file(pid, args.replay)

    t0 = time.time()
    harnesses = [dict(h) for h in prop['harnesses'] if args.tier == 'extended' or args.tier in h.get('tiers', ('quick', 'thorough'))]
    if args.only:
        harnesses = [h for h in harnesses if any(part in h['name'] for part in args.only.split('|'))]
        ONLY[0] = args.only   # partial runs never overwrite the registered evidence file
    if not harnesses:
        log('INCONCLUSIVE: no harness selected for tier %s (filter %r)' % (args.tier, args.only))
        return 2
    # seed: permutes the scheduling order only
    import random
    rnd = random.Random(seed)
    # longest-cap first: the slow harnesses start in the first wave (registry order within equal caps)
    order = sorted(harnesses, key=lambda h: -(h.get('expect_s') or h['timeout']))
    rnd.shuffle(order)
    order.sort(key=lambda h: -h.get('cost', h['timeout']))   # longest first, ties in seeded order

    scratch = tempfile.mkdtemp(prefix='verif-%s-' % pid.lower(), dir=os.environ.get('VERIF_SCRATCH'))
    SCRATCH[0] = scratch
    signal.signal(signal.SIGTERM, _on_term)
    signal.signal(signal.SIGINT, _on_term)
    tag = os.environ.get('VERIF_TAG', '') or ('only-%d' % os.getpid() if args.only else '')
    logdir = os.path.join(VERIF, 'logs', pid, args.tier + ('-' + tag if tag else ''))
    shutil.rmtree(logdir, ignore_errors=True)
    os.makedirs(logdir, exist_ok=True)
    exit_code = 0
    results = []
    violations = []
    known_lines = []
    inconclusive = []
    try:
        snap, hashes = snapshot(scratch)
        replay_prepare(scratch)
        names = inject(snap, prop, harnesses)
        target = os.path.join(scratch, 'target')
        ok, bdt, err = kani_build(snap, target, logdir)
        log('[%s] snapshot of %s compiled with %d harness(es) in %.0fs' % (pid, REPO, len(harnesses), bdt))
        if not ok:
            log('INCONCLUSIVE: harness no longer matches the code (compile error)\n' + err)
            write_evidence(pid, prop, args.tier, seed, [], hashes, time.time() - t0, 0,
                           note='compile error: ' + err[:500])
            return 2
        # float properties: the libm contracts are assumptions about the environment; validate them on the platform libm first
        if prop.get('libm'):
            okb, msg = replay_build()
            rep, det = (False, None)
            if okb:
                rep, det = replay_native({'fn': 'libm_validate', 'args': {'seed': seed + 1}})
            if not okb or rep or any(r['rc'] not in (0,) for r in det.values()):
                log('INCONCLUSIVE: the platform libm does not satisfy the contracts assumed by the harnesses (or the validator does not build)\n' + (msg or json.dumps(det)))
                write_evidence(pid, prop, args.tier, seed, [], hashes, time.time() - t0, 0, note='libm contract validation failed')
                return 2
            log('[%s] libm contracts validated on the platform libm (2e6 seeded random arguments + interval end points +-16 ulp, both profiles)' % pid)
        # memory-aware scheduling: at most MAX_JOBS harnesses at once and the sum of their address-space caps <= TOTAL_MEM_GB
        import threading
        max_jobs = args.jobs or int(os.environ.get('VERIF_MAX_JOBS', '14'))
        cond = threading.Condition()
        state = {'mem': 0.0, 'n': 0}

        def guarded(h):
            need = min(float(h.get('mem_gb', 12)), float(TOTAL_MEM_GB))
            with cond:
                while state['n'] >= max_jobs or (state['n'] > 0 and state['mem'] + need > TOTAL_MEM_GB):
                    cond.wait()
                state['n'] += 1
                state['mem'] += need
            try:
                return run_harness_own_target(h, names[h['name']], snap, scratch, logdir, args.keep)
            finally:
                with cond:
                    state['n'] -= 1
                    state['mem'] -= need
                    cond.notify_all()

        with cf.ThreadPoolExecutor(max_workers=max(len(order), 1)) as ex:
            futs = {ex.submit(guarded, h): h for h in order}
            for fut in cf.as_completed(futs):
                h = futs[fut]
                r = fut.result()
                r['h'] = h
                results.append(r)
                log('[%s] %-38s %-9s %7.1fs  checks=%d vars=%d clauses=%d %s' % (
                    pid, h['name'], r['status'], r['wall_s'], r['checks'], r['vars'], r['clauses'],
                    (r.get('detail') or '')[:200].replace('\n', ' | ') if r['status'] not in ('PASS', 'FAIL') else ''))
        # triage failures
        known = [k for k in load_known() if k.get('property') == pid]
        fails = [r for r in results if r['status'] == 'FAIL']
        if fails:
            okb, msg = replay_build()
            if not okb:
                log('INCONCLUSIVE: native replay crate does not build against /repo\n' + msg)
                exit_code = 2
        for r in fails:
            h = r['h']
            # expected-SAT witness of an open known finding
            kf = next((k for k in known if k.get('status') == 'open' and k.get('witness_harness') == h['name']), None)
            pr = run_harness_own_target(h, names[h['name']], snap, scratch, logdir, args.keep, playback=True)
            if r.get('never_hit'):
                tests = [t for t in pr.get('playback', []) if t[0] == 'cover' and r['never_hit'] in t[1]]
            else:
                tests = [t for t in pr.get('playback', []) if t[0] != 'cover']
                # Kani sometimes prints a concrete test only for a satisfied cover of a harness whose assertion failed: those inputs are
                # in the harness domain and serve as seeds of the native (neighbourhood / snapped) replay search
                if not tests:
                    tests = list(pr.get('playback', []))
            case = None
            reproduced = False
            detail = None
            if tests and h.get('inputs') is not None:
                for kind, desc, vals in tests:
                    inputs = decode_inputs(h['inputs'], vals)
                    case = {'property': pid, 'harness': h['name'], 'fn': h['replay'], 'args': inputs,
                            'const': h.get('replay_const', {}), 'failed_check': desc.strip()}
                    reproduced, detail = replay_native(case)
                    if reproduced:
                        break
            # replay search (small enumerable domains, e.g. the BMOC shapes): a native search for a witness when Kani printed no
            # playback test for the failed check or the exact inputs fail only in the modelled (dev) profile
            if not reproduced and h.get('replay_search'):
                case2 = {'property': pid, 'harness': h['name'], 'fn': h['replay_search'], 'args': {}, 'const': h.get('replay_const', {}),
                         'failed_check': (r.get('prop_failures') or [{}])[0].get('desc', ''), 'note': 'native search over the harness domain'}
                reproduced, detail = replay_native(case2)
                if reproduced:
                    case = case2
            r['counterexample'] = case
            r['replay'] = detail
            r['reproduced'] = reproduced
            fdesc = '; '.join('%s @ %s' % (f['desc'], f['loc']) for f in r.get('prop_failures', [])[:3])
            if kf:
                if reproduced:
                    known_lines.append('KNOWN-FINDING: property=%s %s' % (pid, kf['what']))
                    r['status'] = 'KNOWN'
                else:
                    inconclusive.append('%s: witness of known finding %s fails in the solver but does not replay' % (h['name'], kf['id']))
                continue
            if reproduced:
                rp = save_replay(pid, h['name'], case, detail, fdesc)
                violations.append((h['name'], rp, fdesc))
            else:
                inconclusive.append('%s: solver counter-example (%s) did not reproduce natively: %s' % (
                    h['name'], fdesc[:300], json.dumps(case)[:600] if case else 'no decodable inputs'))
        # stale known findings: the witness harness passed although the finding is listed open
        for k in known:
            if k.get('status') == 'open' and k.get('witness_harness'):
                rr = next((r for r in results if r['name'] == k['witness_harness']), None)
                if rr is not None and rr['status'] == 'PASS':
                    inconclusive.append('known finding %s is listed open but its witness harness is UNSAT (stale entry)' % k['id'])
        # resource exhaustion (time / memory cap) = the query was not decided: stated, never counted as held, and it does not
        # turn the verdict on the decided queries into an error unless nothing at all was decided
        undecided = []
        for r in results:
            if r['status'] in ('ERROR', 'UNWIND', 'VACUOUS', 'COMPILE_ERROR'):
                inconclusive.append('%s: %s %s' % (r['name'], r['status'], (r.get('detail') or '')[:300]))
            elif r['status'] in ('TIMEOUT', 'MEMOUT'):
                undecided.append('%s: %s after %.0fs (cap %ds / %d GB): not decided, outside this run\'s claim' % (
                    r['name'], r['status'], r['wall_s'], r['h']['timeout'], r['h'].get('mem_gb', 12)))
        for l in undecided:
            log('UNDECIDED: ' + l)
        if undecided and not any(r['status'] in ('PASS', 'KNOWN') for r in results):
            inconclusive.append('no query was decided within the resource caps')
        for l in known_lines:
            log(l)
        if violations:
            for hn, rp, fdesc in violations:
                log('VIOLATION property=%s replay=%s' % (pid, rp))
                log('  harness %s: %s' % (hn, fdesc))
            exit_code = 1
        elif inconclusive or exit_code == 2:
            for l in inconclusive:
                log('INCONCLUSIVE: ' + l)
            exit_code = 2
        write_evidence(pid, prop, args.tier, seed, results, hashes, time.time() - t0, len(violations),
                       known_lines=known_lines, inconclusive=inconclusive, undecided=undecided)
        npass = sum(1 for r in results if r['status'] == 'PASS')
        log('[%s] tier=%s: %d/%d harnesses UNSAT (hold within bounds), %d violation(s), %d inconclusive, %d undecided (resource cap), %.0fs' % (
            pid, args.tier, npass, len(results), len(violations), len(inconclusive), len(undecided), time.time() - t0))
        return exit_code
    finally:
        if args.keep:
            log('scratch kept at', scratch)
        else:
            shutil.rmtree(scratch, ignore_errors=True)


def save_replay(pid, hname, case, detail, fdesc):
    tag = os.environ.get('VERIF_TAG', '')
    d = os.path.join(VERIF, 'logs', 'replays-' + tag, pid) if (tag or os.path.realpath(REPO) != '/repo') else os.path.join(VERIF, 'replays', pid)
    os.makedirs(d, exist_ok=True)
    dig = hashlib.sha256(json.dumps(case, sort_keys=True).encode()).hexdigest()[:12]
    p = os.path.join(d, '%s-%s.json' % (hname, dig))
    with open(p, 'w') as f:
        json.dump({'case': case, 'failed_checks': fdesc, 'native': detail}, f, indent=1)
    return p


def do_replay_file(pid, path):
    with open(path) as f:
        doc = json.load(f)
    okb, msg = replay_build()
    if not okb:
        log('INCONCLUSIVE: native replay crate does not build\n' + msg)
        return 2
    reproduced, detail = replay_native(doc['case'])
    log(json.dumps(detail, indent=1))
    if reproduced:
        log('VIOLATION property=%s replay=%s' % (pid, path))
        return 1
    log('not reproduced on the current tree')
    return 0


def write_evidence(pid, prop, tier, seed, results, hashes, wall, nviol, known_lines=(), inconclusive=(), note=None, undecided=()):
    funcs = set()
    for r in results:
        funcs.update(f for f in r.get('functions', []) if 'verif_' not in f)
    samples = []
    for r in sorted(results, key=lambda r: r['name']):
        h = r['h']
        s = {'harness': r['name'], 'call': h['call'], 'domain': h.get('domain', ''), 'status': r['status'],
             'unwind': h.get('unwind'), 'unwindset': h.get('unwindset') or {}, 'cbmc_args': h.get('cbmc_args_resolved', h.get('cbmc_args', [])),
             'stubs': ['%s -> %s' % s for s in h.get('stubs', [])],
             'checks': r['checks'], 'unreachable_checks': r['unreachable'], 'sat_vars': r['vars'], 'sat_clauses': r['clauses'],
             'solver_s': round(r['solver_s'], 2), 'wall_s': r['wall_s'],
             'covers': r['covers']}
        if r.get('counterexample'):
            s['counterexample'] = r['counterexample']
            s['reproduced_natively'] = r.get('reproduced')
        samples.append(s)
    npass = sum(1 for r in results if r['status'] == 'PASS')
    nontrivial = sum(1 for r in results if r['status'] in ('PASS', 'KNOWN', 'FAIL') and r['checks'] > 0 and r['vars'] > 0)
    ev = {
        'property_id': pid, 'tier': tier, 'seed': seed, 'level': 'model_checking',
        'coverage': {
            'evaluations': len(results),
            'distinct_nontrivial': nontrivial,
            'rule': 'one evaluation = one bounded-model-checking query (a Kani proof harness over kani::any() inputs, '
                    'bit-blasted by CBMC and decided by CaDiCaL for ALL values of its symbolic domain); non-trivial = the '
                    'harness reached at least one property check, produced a non-empty SAT instance and all its declared '
                    'cover!() reachability witnesses were satisfied; harness names are distinct by construction',
            'samples': samples,
            'exhaustive': False,
            'queries_discharged_unsat': npass,
            'property_checks_total': sum(r['checks'] for r in results),
            'sat_variables_total': sum(r['vars'] for r in results),
            'sat_clauses_total': sum(r['clauses'] for r in results),
            'solver_seconds_total': round(sum(r['solver_s'] for r in results), 1),
            'harness_wall_seconds_total': round(sum(r['wall_s'] for r in results), 1),
            'functions_encoded': sorted(funcs),
            'functions_anchored': prop.get('functions', []),
            'bounds': prop.get('bounds', {}).get(tier, prop.get('bounds', {}).get('all', '')),
            'outside_bounds': prop.get('outside', ''),
            'source_sha256': hashes,
            'traces_validated_against_impl': sum(1 for r in results if r.get('reproduced')),
            'trusted_base': ['rustc (Kani pinned toolchain) MIR -> goto program', 'Kani 0.68.0', 'CBMC 6.11.0', 'CaDiCaL',
                             'harness oracles under /verif/harness/common', 'libm contracts (validated against the platform libm each run)'],
            'known_findings_reported': list(known_lines),
            'inconclusive': list(inconclusive),
            'undecided_resource_cap': list(undecided),
        },
        'assumptions': prop.get('assumptions', []),
        'wall_s': round(wall, 1),
        'violations': nviol,
    }
    if note:
        ev['coverage']['note'] = note
    tag = os.environ.get('VERIF_TAG', '') or ('only' if ONLY[0] else '') or ('extended' if tier == 'extended' else '')
    evdir = os.path.join(VERIF, 'logs', 'evidence-' + tag) if (tag or os.path.realpath(REPO) != '/repo') else os.path.join(VERIF, 'evidence')
    os.makedirs(evdir, exist_ok=True)
    with open(os.path.join(evdir, pid + '.json'), 'w') as f:
        json.dump(ev, f, indent=1)


if __name__ == '__main__':
    sys.exit(main())
