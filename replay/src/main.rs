//! Native replay of solver counter-examples against the real crate (path dependency on /repo), real libm.
//!   replay '<json case>'   with case = {"fn": name, "args": {..}, "const": {..}}
//! exit 1 + "REPRODUCED: <message>" if the property function fails on these inputs, exit 0 otherwise.
#![allow(dead_code, unused_imports, unused_variables, unused_mut, unused_parens)]

use std::collections::HashMap;
use std::panic;

mod common {
  include!(concat!(env!("CARGO_MANIFEST_DIR"), "/../harness/common/oracles.rs"));
}

macro_rules! prop_mod {
  ($m:ident, $f:expr) => {
    mod $m {
      use cdshealpix as hp;
      use crate::common::*;
      include!(concat!(env!("CARGO_MANIFEST_DIR"), "/../harness/props/", $f));
    }
  };
}

prop_mod!(c18, "c18.rs");
prop_mod!(c16, "c16.rs");
prop_mod!(c04, "c04.rs");
prop_mod!(c10, "c10.rs");
mod c07 {
  use cdshealpix as hp;
  use crate::common::*;
  include!(concat!(env!("CARGO_MANIFEST_DIR"), "/../harness/props/c07.rs"));
  include!(concat!(env!("CARGO_MANIFEST_DIR"), "/../harness/props/c09.rs"));
}
prop_mod!(c14, "c14.rs");
prop_mod!(c01, "c01.rs");
prop_mod!(c17, "c17.rs");
prop_mod!(c06, "c06.rs");
prop_mod!(c03, "c03.rs");
prop_mod!(c19, "c19.rs");
mod c11 {
  use cdshealpix as hp;
  use crate::common::*;
  use crate::c17::c17_in_image;
  include!(concat!(env!("CARGO_MANIFEST_DIR"), "/../harness/props/c11.rs"));
}
mod libmval;

/// Minimal JSON value reader: enough for the flat cases the driver writes.
#[derive(Debug, Clone)]
enum V { N(String), S(String), B(bool), O(Vec<(String, V)>), A(Vec<V>) }

struct P<'a> { s: &'a [u8], i: usize }
impl<'a> P<'a> {
  fn ws(&mut self) { while self.i < self.s.len() && (self.s[self.i] as char).is_whitespace() { self.i += 1; } }
  fn val(&mut self) -> V {
    self.ws();
    match self.s[self.i] as char {
      '{' => {
        self.i += 1; let mut o = Vec::new();
        loop {
          self.ws();
          if self.s[self.i] as char == '}' { self.i += 1; break; }
          if self.s[self.i] as char == ',' { self.i += 1; continue; }
          let k = match self.val() { V::S(s) => s, _ => panic!("key") };
          self.ws(); assert!(self.s[self.i] as char == ':'); self.i += 1;
          let v = self.val();
          o.push((k, v));
        }
        V::O(o)
      }
      '[' => {
        self.i += 1; let mut a = Vec::new();
        loop {
          self.ws();
          if self.s[self.i] as char == ']' { self.i += 1; break; }
          if self.s[self.i] as char == ',' { self.i += 1; continue; }
          a.push(self.val());
        }
        V::A(a)
      }
      '"' => {
        self.i += 1; let st = self.i;
        let mut out = String::new();
        while self.s[self.i] as char != '"' {
          if self.s[self.i] as char == '\\' { self.i += 1; }
          out.push(self.s[self.i] as char);
          self.i += 1;
        }
        let _ = st;
        self.i += 1;
        V::S(out)
      }
      't' => { self.i += 4; V::B(true) }
      'f' => { self.i += 5; V::B(false) }
      'n' => { self.i += 4; V::N("0".into()) }
      _ => {
        let st = self.i;
        while self.i < self.s.len() && !",}] \n\t".contains(self.s[self.i] as char) { self.i += 1; }
        V::N(String::from_utf8_lossy(&self.s[st..self.i]).into_owned())
      }
    }
  }
}

pub struct Args { m: HashMap<String, V> }
impl Args {
  fn get(&self, k: &str) -> &V { self.m.get(k).unwrap_or_else(|| panic!("missing argument {}", k)) }
  pub fn u64(&self, k: &str) -> u64 {
    match self.get(k) { V::N(s) => s.parse::<u64>().unwrap_or_else(|_| s.parse::<i64>().unwrap() as u64), V::B(b) => *b as u64, v => panic!("{:?}", v) }
  }
  pub fn i64(&self, k: &str) -> i64 { match self.get(k) { V::N(s) => s.parse::<i64>().unwrap(), v => panic!("{:?}", v) } }
  pub fn u8(&self, k: &str) -> u8 { self.u64(k) as u8 }
  pub fn u32(&self, k: &str) -> u32 { self.u64(k) as u32 }
  pub fn bool(&self, k: &str) -> bool { self.u64(k) != 0 }
  pub fn f64(&self, k: &str) -> f64 {
    match self.get(k) {
      V::O(o) => {
        let bits = o.iter().find(|(k, _)| k == "f64_bits").map(|(_, v)| v.clone()).expect("f64_bits");
        match bits { V::S(s) => f64::from_bits(u64::from_str_radix(s.trim_start_matches("0x"), 16).unwrap()), _ => panic!() }
      }
      V::N(s) => s.parse::<f64>().unwrap(),
      v => panic!("{:?}", v),
    }
  }
}

fn ops(a: &Args, p: &str, n: usize) -> common::Ops {
  let mut o = common::Ops { dm: a.u8(&format!("{}_dm", p)), n, d: [0; 4], h: [0; 4], f: [false; 4] };
  for k in 0..n.min(4) {
    o.d[k] = a.u8(&format!("{}_d{}", p, k));
    o.h[k] = a.u64(&format!("{}_h{}", p, k));
    o.f[k] = a.bool(&format!("{}_f{}", p, k));
  }
  o
}

/// Replay search for the BMOC harnesses: their symbolic domain is small enough to be enumerated natively (all valid operands of the
/// harness shape, all probe cells). Used when Kani prints no concrete-playback test for the failed check, or when the exact inputs do
/// not reproduce (dev-profile-only failures). This is a search for a witness, not the deciding step.
fn gen_ops(dm: u8, n: usize, k: usize, cur: &mut common::Ops, start: u64, f: &mut dyn FnMut(&common::Ops)) { gen_ops_d(dm, None, n, k, cur, start, f) }

fn gen_ops_d(dm: u8, only: Option<u8>, n: usize, k: usize, cur: &mut common::Ops, start: u64, f: &mut dyn FnMut(&common::Ops)) {
  if k == n { f(cur); return; }
  // next entry must start at or after `start` (deepest-level units)
  for d in 0..=dm {
    if let Some(o) = only { if d != o { continue; } }
    let sh = 2 * (dm - d) as u32;
    let nh = 12u64 << (2 * d as u32);
    let first = (start + (1u64 << sh) - 1) >> sh;
    let mut h = first;
    while h < nh {
      for fl in [false, true].iter() {
        cur.d[k] = d; cur.h[k] = h; cur.f[k] = *fl;
        gen_ops_d(dm, only, n, k + 1, cur, (h + 1) << sh, f);
      }
      h += 1;
    }
  }
}

fn bmoc_search(a: &Args) {
  let (op, mode) = (a.u8("op"), a.u8("mode"));
  let (na, nb) = (a.u64("na") as usize, a.u64("nb") as usize);
  let (dma, dmb) = (a.u8("a_dm"), a.u8("b_dm"));
  let dm = if op == 0 || dma >= dmb { dma } else { dmb };
  let mut oa = common::Ops { dm: dma, n: na, d: [0; 4], h: [0; 4], f: [false; 4] };
  let mut budget: u64 = 40_000_000;
  gen_ops(dma, na, 0, &mut oa, 0, &mut |x: &common::Ops| {
    let xa = *x;
    let mut ob = common::Ops { dm: dmb, n: if op == 0 { 0 } else { nb }, d: [0; 4], h: [0; 4], f: [false; 4] };
    let nbb = ob.n;
    gen_ops(dmb, nbb, 0, &mut ob, 0, &mut |y: &common::Ops| {
      if budget == 0 { return; }
      // a few probe cells are enough to see a wrong map: every cell start / end of both operands, plus a coarse scan
      let nh = 12u64 << (2 * dm as u32);
      let step = if nh > 48 { nh / 48 } else { 1 };
      let mut c = 0u64;
      while c < nh {
        budget = budget.saturating_sub(1);
        c07::p_bmoc_op(op, mode, &xa, y, c);
        c += step;
      }
      for k in 0..xa.n { let sh = 2 * (dm - xa.d[k]) as u32; c07::p_bmoc_op(op, mode, &xa, y, xa.h[k] << sh); c07::p_bmoc_op(op, mode, &xa, y, ((xa.h[k] + 1) << sh) - 1); }
      for k in 0..y.n { let sh = 2 * (dm - y.d[k]) as u32; c07::p_bmoc_op(op, mode, &xa, y, y.h[k] << sh); c07::p_bmoc_op(op, mode, &xa, y, ((y.h[k] + 1) << sh) - 1); }
    });
  });
}

fn pack_search(a: &Args) {
  let n = a.u64("na") as usize;
  let dm = a.u8("a_dm");
  let mut oa = common::Ops { dm, n, d: [0; 4], h: [0; 4], f: [false; 4] };
  // optional restriction to sequences whose entries all have depth `dfix` (the k_pack_d harnesses)
  let dfix: Option<u8> = if a.m.contains_key("dfix") { Some(a.u8("dfix")) } else { None };
  gen_ops_d(dm, dfix, n, 0, &mut oa, 0, &mut |x: &common::Ops| {
    let nh = 12u64 << (2 * dm as u32);
    for k in 0..x.n { let sh = 2 * (dm - x.d[k]) as u32; c07::p_pack(x, x.h[k] << sh); }
    c07::p_pack(x, 0); c07::p_pack(x, nh - 1);
  });
}

fn dispatch(name: &str, a: &Args) -> bool {
  // returns false if the function name is unknown
  match name {
    "c18_ij2h" => c18::p_c18_ij2h(a.u8("d"), a.u32("i"), a.u32("j")),
    "c18_h2ij" => c18::p_c18_h2ij(a.u8("d"), a.u64("h")),
    "c18_xor" => c18::p_c18_xor(a.u32("i"), a.u32("j")),
    "c18_lut_full" => c18::p_c18_lut_full(a.u32("i"), a.u32("j")),
    "c18_uniq" => c18::p_c18_uniq(a.u8("d"), a.u64("h")),
    "c18_uniq_inj" => c18::p_c18_uniq_inj(a.u8("d1"), a.u64("h1"), a.u8("d2"), a.u64("h2")),
    "c18_uniq_layer" => c18::p_c18_uniq_layer(a.u8("d"), a.u64("h")),
    "c18_uniq_guard" => c18::p_c18_uniq_guard(a.u8("d"), a.u64("h"), a.bool("ivoa")),
    "c16_bsd" => c16::p_c16_bsd(a.f64("r")),
    "c16_monotone" => c16::p_c16_table_monotone(a.u8("k")),
    "c16_guard" => c16::p_c16_guard(a.f64("r")),
    "c04_pair" => c04::p_c04_pair(a.u8("depth"), a.u64("a"), a.u64("c")),
    "c04_guard" => c04::p_c04_guard(a.u8("depth"), a.u64("a"), a.bool("single"), a.u8("k")),
    "c10_ring" => c10::p_c10_ring(a.u8("depth"), a.u64("r")),
    "c10_nested" => c10::p_c10_nested(a.u8("depth"), a.u64("h")),
    "c10_centres" => c10::p_c10_centres(a.u8("depth"), a.u64("r")),
    "bmoc_op" => c07::p_bmoc_op(a.u8("op"), a.u8("mode"), &ops(a, "a", a.u64("na") as usize), &ops(a, "b", a.u64("nb") as usize), a.u64("c")),
    "bmoc_identity" => c07::p_bmoc_identity(a.u8("id"), &ops(a, "a", a.u64("na") as usize)),
    "bmoc_equals" => c07::p_bmoc_equals(&ops(a, "a", a.u64("na") as usize), &ops(a, "b", a.u64("nb") as usize), a.u64("c")),
    "bmoc_pack" => c07::p_pack(&ops(a, "a", a.u64("na") as usize), a.u64("c")),
    "bmoc_lower" => c07::p_lower(&ops(a, "a", a.u64("na") as usize), a.u8("nd"), a.bool("packing"), a.u64("c")),
    "bmoc_builder_layout" => c07::p_bmoc_builder_layout(&ops(a, "a", a.u64("na") as usize)),
    "c14_internal" => c14::p_c14_internal(a.u8("depth"), a.u8("delta"), a.u64("hash"), a.u32("k"), a.u32("k2")),
    "c14_parts" => c14::p_c14_parts(a.u8("depth"), a.u8("delta"), a.u64("hash"), a.u32("k")),
    "c14_external" => c14::p_c14_external(a.u8("depth"), a.u8("delta"), a.u64("hash"), a.u64("c"), a.u32("k"), a.bool("sorted")),
    "c14_struct" => c14::p_c14_struct(a.u8("depth"), a.u8("delta"), a.u64("hash"), a.u64("c")),
    "c14_guard" => c14::p_c14_guard(a.u8("depth"), a.u8("delta"), a.u64("hash"), a.u8("which")),
    "bmoc_views" => c07::p_bmoc_views(a.u8("view"), &ops(a, "a", a.u64("na") as usize), a.u64("c"), a.u32("k")),
    "fixed_merge" => c07::p_fixed_merge(a.u8("depth"), a.bool("is_full"), a.u8("d0"), a.u64("h0"), a.u64("p0"), a.u64("c")),
    "fixed_builder" => c07::p_fixed_builder(a.u8("depth"), a.bool("is_full"), a.u64("cap") as usize, a.u64("m") as usize, a.u64("p0"), a.u64("p1"), a.u64("p2"), a.u64("p3"), a.u64("c")),
    "c01_all_depths" => c01::p_c01_search(a.f64("lon"), a.f64("lat")),
    "c01_point" => c01::p_c01_point(a.u8("depth"), a.f64("lon"), a.f64("lat")),
    "c01_pullback" => c01::p_c01_pullback(a.u8("d0h"), a.f64("l"), a.f64("h")),
    "c01_guard" => c01::p_c01_guard(a.u8("depth"), a.f64("lon"), a.f64("lat")),
    "libm_validate" => libmval::validate(a.u64("seed")),
    "oracle_selftest" => libmval::oracle_selftest(a.u64("seed")),
    "f4_scan" => libmval::f4_scan(a.u64("seed")),
    "c03_scan" => libmval::c03_scan(a.u64("seed")),
    "c17_native" => c17::p_c17_native(a.f64("lon"), a.f64("lat")),
    // a defect of pm1_offset_decompose (private) shows through proj at longitudes whose |lon| * 4/pi is the failing argument
    "c17_pm1" => {
      let xs = a.f64("xs");
      let l0 = xs * 0.25 * std::f64::consts::PI;
      for k in -8i64..=8 {
        let lon = f64::from_bits((l0.to_bits() as i64).wrapping_add(k) as u64);
        for lat in [0.0f64, 0.3, -0.5, 1.0, -1.2].iter() { c17::p_c17_native(lon, *lat); c17::p_c17_native(-lon, *lat); }
      }
    },
    "c17_native_plane" => c17::p_c17_native_plane(a.f64("x"), a.f64("y")),
    "c17_base_cell" => c17::p_c17_base_cell(a.f64("x"), a.f64("y")),
    "c17_guard" => c17::p_c17_guard(a.u8("which"), a.f64("a"), a.f64("b")),
    // boundary radius: the solver chose the libm values, so search a grid of centres next to the reported one
    "c06_allsky_pi" => {
      let (d, dl) = (a.u8("depth"), a.u8("delta"));
      c06::p_c06_allsky(d, dl, a.f64("lon"), a.f64("lat"), std::f64::consts::PI);
      let mut lo = 0.0f64;
      while lo < 6.3 { let mut la = -1.5f64; while la <= 1.5 { c06::p_c06_allsky(d, dl, lo, la, std::f64::consts::PI); la += 0.25; } lo += 0.3; }
    },
    "c06_allsky" => { for r in [std::f64::consts::PI, 3.1415926535897936, 4.0, 1e300, f64::INFINITY].iter() { c06::p_c06_allsky(a.u8("depth"), a.u8("delta"), a.f64("lon"), a.f64("lat"), *r); } },
    "c11_pullback" => c11::p_c11_pullback(a.u32("nside"), a.f64("x"), a.f64("y")),
    "c11_center" => c11::p_c11_center(a.u32("nside"), a.u64("h")),
    "c11_order" => c11::p_c11_order(a.u32("nside"), a.u64("r")),
    "c11_guard" => c11::p_c11_guard(a.u32("nside"), a.u8("which"), a.u64("h"), a.f64("lon"), a.f64("lat")),
    "c03_cell" => c03::p_c03_cell(a.u8("depth"), a.u64("h"), a.u32("dxk"), a.u32("dyk")),
    "c03_pullback" => c03::p_c03_pullback(a.u8("depth"), a.f64("x"), a.f64("y")),
    "c03_guard" => c03::p_c03_guard(a.u8("depth"), a.u8("which"), a.u64("h")),
    "c19_pullback" => c19::p_c19_pullback(a.u8("depth"), a.f64("x"), a.f64("y")),
    "c14_dirs" => c14::p_c14_dirs(a.u8("depth"), a.u64("a"), a.u8("k")),
    "bmoc_op_search" => bmoc_search(a),
    "bmoc_pack_search" => pack_search(a),
    "c19_cell" => c19::p_c19_cell(a.u8("depth"), a.u64("h"), a.u64("a") as u16, a.u64("b") as u16),
    _ => return false,
  }
  true
}

fn main() {
  let argv: Vec<String> = std::env::args().collect();
  if argv.len() < 2 { eprintln!("usage: replay '<json case>'"); std::process::exit(3); }
  let case = match (P { s: argv[1].as_bytes(), i: 0 }).val() { V::O(o) => o, _ => panic!("case must be an object") };
  let mut name = String::new();
  let mut m: HashMap<String, V> = HashMap::new();
  for (k, v) in case {
    match (k.as_str(), v) {
      ("fn", V::S(s)) => name = s,
      ("args", V::O(o)) | ("const", V::O(o)) => { for (k, v) in o { m.insert(k, v); } }
      _ => {}
    }
  }
  let args = Args { m };
  let is_guard = name.ends_with("_guard");
  panic::set_hook(Box::new(|_| {}));
  let name2 = name.clone();
  let res = panic::catch_unwind(panic::AssertUnwindSafe(|| dispatch(&name2, &args)));
  match res {
    Ok(true) => { println!("NOT-REPRODUCED: {} returned normally", name); std::process::exit(0); }
    Ok(false) => { println!("UNKNOWN-FN: {}", name); std::process::exit(3); }
    Err(e) => {
      let msg = if let Some(s) = e.downcast_ref::<&str>() { s.to_string() }
                else if let Some(s) = e.downcast_ref::<String>() { s.clone() } else { "panic".to_string() };
      if is_guard && !msg.contains("GUARD-NOT-TRIGGERED") {
        println!("NOT-REPRODUCED: guard rejected the input ({})", msg);
        std::process::exit(0);
      }
      println!("REPRODUCED: {}", msg);
      std::process::exit(1);
    }
  }
}
