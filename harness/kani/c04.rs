fn k_c04_pair(depth: u8) {
  let a: u64 = kani::any();
  let c: u64 = kani::any();
  let nh = spec_n_hash(depth);
  kani::assume(a < nh && c < nh && c != a);
  let va = plane_cell_vertices(depth, a);
  kani::cover!(plane_is_three_cell_point(depth, va[1]), "cell lacking its E neighbour");
  kani::cover!(va[2].1 == 2 * (1i64 << depth), "cell touching the north pole");
  kani::cover!(plane_n_shared(&va, &plane_cell_vertices(depth, c)) == 2 && (a >> (2 * depth as u32)) != (c >> (2 * depth as u32)), "edge neighbour in another base cell");
  p_c04_pair(depth, a, c);
}

fn k_c04_guard(depth: u8, single: bool) {
  let a: u64 = kani::any();
  let k: u8 = kani::any();
  kani::assume(a >= spec_n_hash(depth));
  let layer = hp::nested::get_or_create(depth);
  if single { let _ = layer.neighbour(a, c04_dir(k & 7)); } else { let _ = layer.neighbours(a, false); }
  kani::cover!(true, "guard bypassed");
}
