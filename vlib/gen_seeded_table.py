#!/usr/bin/env python3
"""Prints the markdown table of seeded changes (from /verif/seeded/*/meta.json) for DESIGN.md."""
import json, glob, os, re
rows = []
for d in sorted(glob.glob('/verif/seeded/*')):
    mp = os.path.join(d, 'meta.json')
    if not os.path.exists(mp):
        continue
    m = json.load(open(mp))
    note = m.get('needs_to_manifest', '').replace('\n', ' ')
    note = re.sub(r'\s+', ' ', note)[:230]
    cr = m.get('check_run', {})
    if cr.get('detected'):
        det = 'caught by ' + ', '.join(sorted(set(v['harness'] for v in cr['violations'])))
    elif cr:
        det = 'NOT caught (' + (cr.get('why') or '; '.join(cr.get('inconclusive', []))[:120] or 'no violation') + ')'
    else:
        det = 'not run'
    rows.append('| %s | %s | %s | %s |' % (m['id'], m['breaks_property'], note.replace('|', '/'), det.replace('|', '/')))
print('| seeded change | property | what it changes / what it needs to manifest | result of `./check <property> --tier quick` on the mutated tree |')
print('|---|---|---|---|')
print('\n'.join(rows))
