// C19 -- bilinear interpolation returns a partition of unity over the right cells.
use hp::compass_point::MainWind;

fn c19_dir(k: u8) -> MainWind {
  match k { 0 => MainWind::S, 1 => MainWind::SE, 2 => MainWind::E, 3 => MainWind::SW,
            4 => MainWind::NE, 5 => MainWind::W, 6 => MainWind::NW, _ => MainWind::N }
}

fn c19_msg(code: u32) -> &'static str {
  match code {
    1 => "C19: cell number out of range",
    2 => "C19: weight outside [0, 1]",
    3 => "C19: a returned cell is neither the cell of the position nor one of its neighbours",
    4 => "C19: the cell containing the position is not among the four cells",
    5 => "C19: weights do not sum to 1",
    6 => "C19: at the centre of a cell the whole weight is not on that cell",
    7 => "C19: next to a three-cell point the missing corner does not contribute weight 0",
    _ => "C19: the weighted mean of the four centres is not the position",
  }
}

/// Checks on the four (cell, weight) pairs returned for a position whose cell / offsets are (h, dx, dy). Returns 0 or the code of
/// the first clause that fails (one code instead of ~40 separate assertions: a single solver query per harness). No libm.
pub fn c19_eval(depth: u8, res: &[(u64, f64); 4], h: u64, dx: f64, dy: f64) -> u32 {
  let nh = spec_n_hash(depth);
  let layer = hp::nested::get_or_create(depth);
  let map = layer.neighbours(h, true);
  let vh = plane_cell_vertices(depth, h);
  let mut err = 0u32;
  let mut sum = 0.0f64;
  let mut has_h = false;
  let mut k = 0usize;
  while k < 4 {
    let (c, w) = res[k];
    if !(c < nh) && err == 0 { err = 1; }
    if !(w >= 0.0 && w <= 1.0) && err == 0 { err = 2; }
    sum += w;
    if c == h { has_h = true; }
    // the cell is h or touches h (plane oracle: shares a canonical vertex), independently of the crate's neighbour tables
    let found = c == h || (c < nh && plane_n_shared(&vh, &plane_cell_vertices(depth, c)) > 0);
    if !found && err == 0 { err = 3; }
    k += 1;
  }
  if !has_h && err == 0 { err = 4; }
  if !(sum >= 1.0 - 1e-12 && sum <= 1.0 + 1e-12) && err == 0 { err = 5; }
  if dx == 0.5 && dy == 0.5 {
    let mut wh = 0.0f64;
    k = 0;
    while k < 4 { if res[k].0 == h { wh += res[k].1; } k += 1; }
    if wh != 1.0 && err == 0 { err = 6; }
  }
  // missing corner (next to a three-cell point): the quadrant towards a missing S / E / N / W neighbour has a zero-weight filler
  let xq = dx > 0.5;
  let yq = dy > 0.5;
  let corner = if !xq && !yq { 0u8 } else if xq && !yq { 2 } else if !xq && yq { 5 } else { 7 };
  let corner_missing = map.get(c19_dir(corner)).is_none();
  if corner_missing {
    let mut n_zero_h = 0u32;
    k = 0;
    while k < 4 { if res[k].0 == h && res[k].1 == 0.0 { n_zero_h += 1; } k += 1; }
    if n_zero_h < 1 && err == 0 { err = 7; }
  }
  // barycentre when the four cells are in one base cell: weighted mean of the centres (cell grid units) = the position
  let b0 = res[0].0 >> (2 * depth as u32);
  if err == 0 && !corner_missing && (res[1].0 >> (2 * depth as u32)) == b0 && (res[2].0 >> (2 * depth as u32)) == b0 && (res[3].0 >> (2 * depth as u32)) == b0 {
    let (_, hi, hj) = spec_decode(depth, h);
    let mut mi = 0.0f64;
    let mut mj = 0.0f64;
    k = 0;
    while k < 4 {
      let (_, ci, cj) = spec_decode(depth, res[k].0);
      mi += res[k].1 * (ci as f64 + 0.5);
      mj += res[k].1 * (cj as f64 + 0.5);
      k += 1;
    }
    let (pi, pj) = (hi as f64 + dx, hj as f64 + dy);
    let n = (1u64 << depth) as f64;
    if !((mi - pi) <= 1e-9 * n && (pi - mi) <= 1e-9 * n && (mj - pj) <= 1e-9 * n && (pj - mj) <= 1e-9 * n) { err = 8; }
  }
  err
}

pub fn c19_check(depth: u8, res: &[(u64, f64); 4], h: u64, dx: f64, dy: f64) {
  let err = c19_eval(depth, res, h, dx, dy);
  #[cfg(not(kani))]
  { if err != 0 { panic!("{}", c19_msg(err)); } }
  assert!(err == 0, "C19: bilinear interpolation violates one of its clauses (weights in [0,1] summing to 1, right cells, centre, missing corner, barycentre)");
}

#[cfg(not(kani))]
pub fn p_c19_point(depth: u8, lon: f64, lat: f64) {
  if !(depth <= 29 && lat >= -0.5 * REF_PI && lat <= 0.5 * REF_PI && lon.abs() <= 25.2) { return; }
  let res = hp::nested::bilinear_interpolation(depth, lon, lat);
  let (h, dx, dy) = hp::nested::hash_with_dxdy(depth, lon, lat);
  c19_check(depth, &res, h, dx, dy);
}

#[cfg(not(kani))]
pub fn p_c19_pullback(depth: u8, x: f64, y: f64) {
  if !(x.is_finite() && y >= -2.0 && y <= 2.0) { return; }
  let (lon, lat) = hp::unproj(x.rem_euclid(8.0), y);
  let mut a = -12i64;
  while a <= 12 {
    let mut b = -12i64;
    while b <= 12 {
      let lo = f64::from_bits((lon.to_bits() as i64).wrapping_add(a) as u64);
      let la = f64::from_bits((lat.to_bits() as i64).wrapping_add(b) as u64);
      if lo.is_finite() && la.is_finite() { p_c19_point(depth, lo, la); }
      b += 1;
    }
    a += 1;
  }
}

/// Native: the position at offsets (a/256, b/256) of cell h (offsets of exactly 1 are pulled slightly inside).
#[cfg(not(kani))]
pub fn p_c19_cell(depth: u8, h: u64, a: u16, b: u16) {
  if !(depth <= 29 && h < spec_n_hash(depth) && a <= 256 && b <= 256) { return; }
  let dx = (a as f64 / 256.0).min(0.9999999);
  let dy = (b as f64 / 256.0).min(0.9999999);
  let (lon, lat) = hp::nested::sph_coo(depth, h, dx, dy);
  p_c19_point(depth, lon, lat);
}
