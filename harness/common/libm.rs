// libm contract stubs (cut L1 of DESIGN.md): sin / cos / asin / acos are environment. Each stub returns a fresh
// nondeterministic double constrained ONLY by facts that hold for the mathematical function rounded with <= 1 ulp error
// (glibc documents <= 1 ulp for all four), plus determinism (same argument bits -> same result bits) through a small memo.
// Every clause is validated against the platform libm by `replay libm_validate` on every run.
// Only compiled under cfg(kani).

pub const C_PI: f64 = std::f64::consts::PI;
pub const C_HALF_PI: f64 = 0.5 * std::f64::consts::PI;
pub const C_T: f64 = 0.72972765622696636344_f64;           // asin(2/3), the crate's TRANSITION_LATITUDE
pub const C_TWO_THIRD_UP: f64 = 0.666666666666667_f64; // fl(2/3) + 3 ulp
pub const C_A: f64 = 1.1502619915109311_f64;               // fl(T/2 + pi/4) - 2 ulp
pub const C_INV_SQRT6_UP: f64 = 0.40824829046386396_f64;   // fl(1/sqrt(6)) + 16 ulp
pub const C_T_UP: f64 = 0.7297276562269668_f64;                  // fl(T) + 4 ulp
pub const C_INV_SQRT6_2: f64 = 0.4082482904638632_f64;    // fl(1/sqrt(6)) + 2 ulp
pub const C_A6: f64 = 1.1502619915109302_f64;              // fl(T/2 + pi/4) - 6 ulp
pub const C_A0: f64 = 1.1502619915109316_f64;              // fl(fl(next(T) / 2) + pi/4): smallest argument of cos evaluated by proj for |lat| > T
pub const C_INV_SQRT6: f64 = 0.4082482904638631_f64;       // fl(1/sqrt(6)); SQRT6 * this rounds to 1.0; true cos(C_A0) is 2.1 ulp below it
pub const C_TINY: f64 = 2.7755575615628914e-17;            // 2^-55 < cos(fl(pi/2)) = 6.1e-17

const MEMO: usize = 3;
static mut SIN_MEMO: [(bool, u64, u64); MEMO] = [(false, 0, 0); MEMO];
static mut COS_MEMO: [(bool, u64, u64); MEMO] = [(false, 0, 0); MEMO];
static mut ASIN_MEMO: [(bool, u64, u64); MEMO] = [(false, 0, 0); MEMO];
static mut ACOS_MEMO: [(bool, u64, u64); MEMO] = [(false, 0, 0); MEMO];

unsafe fn memo_get(m: *const [(bool, u64, u64); MEMO], key: u64) -> Option<u64> {
  let m = &*m;
  if m[0].0 && m[0].1 == key { return Some(m[0].2); }
  if m[1].0 && m[1].1 == key { return Some(m[1].2); }
  if m[2].0 && m[2].1 == key { return Some(m[2].2); }
  None
}
unsafe fn memo_put(m: *mut [(bool, u64, u64); MEMO], key: u64, val: u64) {
  let m = &mut *m;
  if !m[0].0 { m[0] = (true, key, val); } else if !m[1].0 { m[1] = (true, key, val); } else if !m[2].0 { m[2] = (true, key, val); }
  else { kani::assume(false); }   // more distinct arguments than the memo holds: path pruned; harnesses are sized so that this is unreachable (cover-checked)
}

fn fabs(x: f64) -> f64 { f64::from_bits(x.to_bits() & 0x7FFF_FFFF_FFFF_FFFF) }

/// sin: |s| <= 1; s = +-0 exactly for x = +-0; sign of x for 0 < |x| <= pi and s != 0 there; |s| <= |x|; |x| <= T => |s| <= 2/3 (+1 ulp)
pub fn sin_stub(x: f64) -> f64 {
  unsafe { if let Some(v) = memo_get(&raw const SIN_MEMO, x.to_bits()) { return f64::from_bits(v); } }
  let s: f64 = kani::any();
  kani::assume(s >= -1.0 && s <= 1.0);
  if x == 0.0 { kani::assume(s.to_bits() == x.to_bits()); }
  let ax = fabs(x);
  if ax <= C_PI && x > 0.0 { kani::assume(s > 0.0); }
  if ax <= C_PI && x < 0.0 { kani::assume(s < 0.0); }
  if ax < 1.0 { kani::assume(fabs(s) <= ax); }
  if ax <= C_T { kani::assume(fabs(s) <= C_TWO_THIRD_UP); }
  unsafe { memo_put(&raw mut SIN_MEMO, x.to_bits(), s.to_bits()); }
  s
}

/// cos: |c| <= 1; even; |x| <= fl(pi/2) => c >= 2^-55 (in particular never -0.0); A <= |x| <= fl(pi/2) => c <= 1/sqrt(6) (+2 ulp)
pub fn cos_stub(x: f64) -> f64 {
  let ax = fabs(x);
  unsafe { if let Some(v) = memo_get(&raw const COS_MEMO, ax.to_bits()) { return f64::from_bits(v); } }
  let c: f64 = kani::any();
  kani::assume(c >= -1.0 && c <= 1.0);
  if ax <= C_HALF_PI { kani::assume(c >= C_TINY); }
  if ax >= C_A && ax <= C_HALF_PI { kani::assume(c <= C_INV_SQRT6_UP); }
  if ax >= C_A0 && ax <= C_HALF_PI { kani::assume(c <= C_INV_SQRT6); }
  unsafe { memo_put(&raw mut COS_MEMO, ax.to_bits(), c.to_bits()); }
  c
}

/// asin on [-1, 1]: result in [-pi/2, pi/2], odd, sign of z, +-0 for +-0; |z| <= 2/3 (+1 ulp) => |r| <= T (+2 ulp); NaN outside [-1, 1]
pub fn asin_stub(z: f64) -> f64 {
  unsafe { if let Some(v) = memo_get(&raw const ASIN_MEMO, z.to_bits()) { return f64::from_bits(v); } }
  let r: f64 = kani::any();
  if z >= -1.0 && z <= 1.0 {
    kani::assume(r >= -C_HALF_PI && r <= C_HALF_PI);
    if z == 0.0 { kani::assume(r.to_bits() == z.to_bits()); }
    if z > 0.0 { kani::assume(r > 0.0); }
    if z < 0.0 { kani::assume(r < 0.0); }
    if fabs(z) <= C_TWO_THIRD_UP { kani::assume(fabs(r) <= C_T_UP); }
  } else {
    kani::assume(r != r);
  }
  unsafe { memo_put(&raw mut ASIN_MEMO, z.to_bits(), r.to_bits()); }
  r
}

/// acos on [-1, 1]: result in [0, pi]; 0 <= z <= 1/sqrt(6) (+2 ulp) => r in [T/2+pi/4 - 6 ulp, fl(pi/2)]; NaN outside [-1, 1]
pub fn acos_stub(z: f64) -> f64 {
  unsafe { if let Some(v) = memo_get(&raw const ACOS_MEMO, z.to_bits()) { return f64::from_bits(v); } }
  let r: f64 = kani::any();
  if z >= -1.0 && z <= 1.0 {
    kani::assume(r >= 0.0 && r <= C_PI);
    if z >= 0.0 && z <= C_INV_SQRT6_2 { kani::assume(r >= C_A6 && r <= C_HALF_PI); }
  } else {
    kani::assume(r != r);
  }
  unsafe { memo_put(&raw mut ACOS_MEMO, z.to_bits(), r.to_bits()); }
  r
}

// ---- formatting / printing are environment: error paths build their messages with format!, one table function prints ----
pub fn stub_format(_args: std::fmt::Arguments<'_>) -> String { String::new() }
pub fn stub_print(_args: std::fmt::Arguments<'_>) {}
