fn k_bmoc_views(view: u8, n: usize, dm: u8) {
  let a = any_ops(n, dm);
  let c: u64 = kani::any();
  let k: u32 = kani::any();
  kani::assume(a.valid() && c < spec_n_hash(dm));
  kani::cover!(n == 0 || a.d[0] < dm, "an entry above depth_max");
  p_bmoc_views(view, &a, c, k);
}

fn k_fixed_builder(depth: u8, cap: usize, m: usize) {
  let is_full: bool = kani::any();
  let p0: u64 = kani::any();
  let p1: u64 = kani::any();
  let p2: u64 = kani::any();
  let p3: u64 = kani::any();
  let c: u64 = kani::any();
  let nh = spec_n_hash(depth);
  kani::assume(c < nh && (m < 1 || p0 < nh) && (m < 2 || p1 < nh) && (m < 3 || p2 < nh) && (m < 4 || p3 < nh));
  if m >= 2 { kani::cover!(p1 < p0, "unsorted pushes"); kani::cover!(p1 == p0, "duplicate push"); }
  p_fixed_builder(depth, is_full, cap, m, p0, p1, p2, p3, c);
}

/// One step of the fixed-depth builder on an arbitrary valid pre-state: `buff_to_bmoc` (with `largest_lower_cell_sequence_len`) on
/// ANY strictly increasing buffer of m cells -- what `drain_buffer` hands it after sort + dedup. No sort, no `or`: small enough to
/// cover 4 cells at depths 0..2 (the end-to-end harness with 4 pushes runs out of memory at 40 GB).
fn k_fixed_buff(depth: u8, m: usize) {
  let is_full: bool = kani::any();
  let p0: u64 = kani::any();
  let p1: u64 = kani::any();
  let p2: u64 = kani::any();
  let p3: u64 = kani::any();
  let c: u64 = kani::any();
  let nh = spec_n_hash(depth);
  kani::assume(c < nh && (m < 1 || p0 < nh) && (m < 2 || (p1 < nh && p0 < p1)) && (m < 3 || (p2 < nh && p1 < p2)) && (m < 4 || (p3 < nh && p2 < p3)));
  kani::cover!(m == 4 && p0 & 3 == 0 && p3 == p0 + 3, "four siblings");
  kani::cover!(m >= 2 && p1 == p0 + 1 && p0 & 3 == 1, "consecutive cells that are not a complete parent");
  let ps = [p0, p1, p2, p3];
  let mut buffer: Vec<u64> = Vec::with_capacity(4);
  let mut t = 0usize;
  while t < m { buffer.push(ps[t]); t += 1; }
  let mut b = BMOCBuilderFixedDepth { depth, bmoc: None, is_full, buffer, sorted: true };
  let bm = b.buff_to_bmoc();
  assert!(bm.get_depth_max() == depth, "C15: builder output has the wrong depth_max");
  let (bad, sr, _) = spec_scan(depth, &bm.entries, c);
  assert!(bad.is_none(), "C15/C09: builder output is not well formed");
  let mut pushed = false;
  t = 0;
  while t < m { if ps[t] == c { pushed = true; } t += 1; }
  let expected = if pushed { if is_full { FULL } else { PARTIAL } } else { ABSENT };
  assert!(sr == expected, "C15: builder output does not cover exactly the pushed cells with the requested flag");
}

/// One whole `drain_buffer` step from the initial state (no previous BMOC): sort model + the real `Vec::dedup` + `buff_to_bmoc` on
/// ANY buffer `push` can leave behind -- m cells in any order, duplicates allowed except two equal consecutive ones (`push` skips
/// those), `sorted` = what `push` computed (false as soon as one cell is smaller than its predecessor). Smaller than the end-to-end
/// harness (no `push`, no `or`): reaches 3 pushes, the shortest history with a late duplicate after a descent (a, b < a, a).
fn k_fixed_drain(depth: u8, m: usize) {
  let is_full: bool = kani::any();
  let p0: u64 = kani::any();
  let p1: u64 = kani::any();
  let p2: u64 = kani::any();
  let p3: u64 = kani::any();
  let c: u64 = kani::any();
  let nh = spec_n_hash(depth);
  kani::assume(c < nh && (m < 1 || p0 < nh) && (m < 2 || (p1 < nh && p1 != p0)) && (m < 3 || (p2 < nh && p2 != p1)) && (m < 4 || (p3 < nh && p3 != p2)));
  kani::cover!(m >= 3 && p1 < p0 && p2 == p0, "late duplicate after a descent");
  let ps = [p0, p1, p2, p3];
  let mut buffer: Vec<u64> = Vec::with_capacity(4);
  let mut sorted = true;
  let mut t = 0usize;
  while t < m { if t > 0 && ps[t] < ps[t - 1] { sorted = false; } buffer.push(ps[t]); t += 1; }
  let mut b = BMOCBuilderFixedDepth { depth, bmoc: None, is_full, buffer, sorted };
  b.drain_buffer();
  let res = b.bmoc.take();
  assert!(res.is_some(), "C15: builder returns nothing although cells were pushed");
  let bm = res.unwrap();
  assert!(bm.get_depth_max() == depth, "C15: builder output has the wrong depth_max");
  let (bad, sr, _) = spec_scan(depth, &bm.entries, c);
  assert!(bad.is_none(), "C15/C09: builder output is not well formed");
  let mut pushed = false;
  t = 0;
  while t < m { if ps[t] == c { pushed = true; } t += 1; }
  let expected = if pushed { if is_full { FULL } else { PARTIAL } } else { ABSENT };
  assert!(sr == expected, "C15: builder output does not cover exactly the pushed cells with the requested flag");
}

/// Inductive step across a buffer flush (see p_fixed_merge): accumulated BMOC = one symbolic cell of any depth <= depth, buffer = one
/// symbolic cell. Covers the case "flushed cell inside / next to a merged coarse cell" that needs >= 5 pushes end to end.
fn k_fixed_merge(depth: u8) {
  let is_full: bool = kani::any();
  let d0: u8 = kani::any();
  let h0: u64 = kani::any();
  let p0: u64 = kani::any();
  let c: u64 = kani::any();
  kani::assume(d0 <= depth && h0 < spec_n_hash(d0) && p0 < spec_n_hash(depth) && c < spec_n_hash(depth));
  kani::cover!(d0 < depth && (p0 >> (2 * (depth - d0) as u32)) == h0, "flushed cell inside the accumulated coarse cell");
  p_fixed_merge(depth, is_full, d0, h0, p0, c);
}

/// Model of `slice::sort_unstable` (environment: std) for the fixed-depth builder harnesses: an insertion sort on at most 4
/// elements, the bound being asserted. The std implementation (pattern-defeating quicksort + recursion) is out of reach of the
/// symbolic execution even for 2 elements (symbolic length).
pub(crate) fn model_sort<T: Ord>(v: &mut [T]) {
  assert!(v.len() <= 4, "verif model: sort of more than 4 elements");
  let n = v.len();
  let mut i = 1;
  while i < n {
    let mut j = i;
    while j > 0 && v[j - 1] > v[j] { v.swap(j - 1, j); j -= 1; }
    i += 1;
  }
}
