#!/usr/bin/env python3
"""save_seeded.py <PID> <m>: copy a confirmed mutant from /tmp/wt/<PID>/out/<m> to /verif/seeded/<PID>-<m>/ with meta.json."""
import sys, os, json, shutil, re
pid, m = sys.argv[1], sys.argv[2]
extra = sys.argv[3] if len(sys.argv) > 3 else '--tier quick'
chk = sys.argv[4] if len(sys.argv) > 4 else pid   # property whose check was run (a change seeded for one property may be caught by another property's check)
src = '/tmp/wt/%s/out/%s' % (pid, m)
dst = '/verif/seeded/%s-%s' % (pid, m)
os.makedirs(dst, exist_ok=True)
for f in ('patch.diff', 'demo.rs', 'note.txt'):
    if os.path.exists(os.path.join(src, f)):
        shutil.copy(os.path.join(src, f), os.path.join(dst, f))
conf = ''
cf = '/tmp/confirm_%s_%s.log' % (pid, m)
if os.path.exists(cf):
    conf = [l.strip() for l in open(cf) if l.startswith('RESULT')][-1:]
    conf = conf[0] if conf else ''
note = open(os.path.join(dst, 'note.txt')).read() if os.path.exists(os.path.join(dst, 'note.txt')) else ''
meta_p = os.path.join(dst, 'meta.json')
meta = json.load(open(meta_p)) if os.path.exists(meta_p) else {}
meta.update({
    'id': '%s-%s' % (pid, m), 'breaks_property': pid, 'origin': 'fresh sub-agent given only the property text and a scratch worktree of /repo',
    'needs_to_manifest': note.strip()[:1200],
    'confirmed_by_me': {'cmd': 'vlib/confirm_mutant.sh /tmp/wt/%s %s' % (pid, src), 'result': conf,
                        'meaning': 'existing lib test-suite passes with the patch (63 tests); demo test fails with the patch (rc 101) and passes without it (rc 0)'},
})
# detection result, if a mutant run log exists
lg = '/tmp/mutant-%s-%s.log' % (m, chk)
if os.path.exists(lg):
    t = open(lg, errors='replace').read()
    viol = re.findall(r'^VIOLATION property=(\S+) replay=\S+\n  harness (\S+): (.*)$', t, re.M)
    meta['check_run'] = {'cmd': 'vlib/try_mutant.sh %s /tmp/wt/%s %s/patch.diff %s' % (chk, pid, src, extra), 'check_of_property': chk,
                         'detected': bool(viol), 'violations': [{'harness': v[1], 'failed_check': v[2][:300]} for v in viol][:6],
                         'inconclusive': re.findall(r'^INCONCLUSIVE: (.*)$', t, re.M)[:4]}
json.dump(meta, open(meta_p, 'w'), indent=1)
print(dst, 'detected=' + str(meta.get('check_run', {}).get('detected')))
