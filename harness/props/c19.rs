// C19 -- bilinear interpolation returns a partition of unity over the right cells.
use hp::compass_point::MainWind;

fn c19_dir(k: u8) -> MainWind {
  match k { 0 => MainWind::S, 1 => MainWind::SE, 2 => MainWind::E, 3 => MainWind::SW,
            4 => MainWind::NE, 5 => MainWind::W, 6 => MainWind::NW, _ => MainWind::N }
}

/// Checks on the four (cell, weight) pairs returned for a position whose cell / offsets are (h, dx, dy).
/// Shared by the solver (plane cut) and the native replay. No libm.
pub fn c19_check(depth: u8, res: &[(u64, f64); 4], h: u64, dx: f64, dy: f64) {
  let nh = spec_n_hash(depth);
  let layer = hp::nested::get_or_create(depth);
  let map = layer.neighbours(h, true);
  let mut sum = 0.0f64;
  let mut has_h = false;
  let mut k = 0usize;
  while k < 4 {
    let (c, w) = res[k];
    assert!(c < nh, "C19: cell number out of range");
    assert!(w >= 0.0 && w <= 1.0, "C19: weight outside [0, 1]");
    sum += w;
    if c == h { has_h = true; }
    // the cell is h or one of its neighbours
    let mut found = c == h;
    let mut d = 0u8;
    while d < 8 {
      if let Some(v) = map.get(c19_dir(d)) { if *v == c { found = true; } }
      d += 1;
    }
    assert!(found, "C19: a returned cell is neither the cell of the position nor one of its neighbours");
    k += 1;
  }
  assert!(has_h, "C19: the cell containing the position is not among the four cells");
  assert!(sum >= 1.0 - 1e-12 && sum <= 1.0 + 1e-12, "C19: weights do not sum to 1");
  if dx == 0.5 && dy == 0.5 {
    let mut wh = 0.0f64;
    k = 0;
    while k < 4 { if res[k].0 == h { wh += res[k].1; } k += 1; }
    assert!(wh == 1.0, "C19: at the centre of a cell the whole weight is not on that cell");
  }
  // missing corner (next to a three-cell point): the quadrant towards a missing S / E / N / W neighbour has a zero-weight filler
  let xq = dx > 0.5;
  let yq = dy > 0.5;
  let corner = if !xq && !yq { 0u8 } else if xq && !yq { 2 } else if !xq && yq { 5 } else { 7 };
  if map.get(c19_dir(corner)).is_none() {
    let mut n_zero_h = 0u32;
    k = 0;
    while k < 4 { if res[k].0 == h && res[k].1 == 0.0 { n_zero_h += 1; } k += 1; }
    assert!(n_zero_h >= 1, "C19: next to a three-cell point the missing corner does not contribute weight 0");
  }
  // barycentre when the four cells are in one base cell: weighted mean of the centres (cell grid units) = the position
  let b0 = res[0].0 >> (2 * depth as u32);
  if (res[1].0 >> (2 * depth as u32)) == b0 && (res[2].0 >> (2 * depth as u32)) == b0 && (res[3].0 >> (2 * depth as u32)) == b0
     && map.get(c19_dir(corner)).is_some() {
    let (_, hi, hj) = spec_decode(depth, h);
    let mut mi = 0.0f64;
    let mut mj = 0.0f64;
    k = 0;
    while k < 4 {
      let (_, ci, cj) = spec_decode(depth, res[k].0);
      mi += res[k].1 * (ci as f64 + 0.5);
      mj += res[k].1 * (cj as f64 + 0.5);
      k += 1;
    }
    let (pi, pj) = (hi as f64 + dx, hj as f64 + dy);
    let n = (1u64 << depth) as f64;
    assert!((mi - pi) <= 1e-9 * n && (pi - mi) <= 1e-9 * n && (mj - pj) <= 1e-9 * n && (pj - mj) <= 1e-9 * n, "C19: the weighted mean of the four centres is not the position");
  }
}

#[cfg(not(kani))]
pub fn p_c19_point(depth: u8, lon: f64, lat: f64) {
  if !(depth <= 29 && lat >= -0.5 * REF_PI && lat <= 0.5 * REF_PI && lon.abs() <= 25.2) { return; }
  let res = hp::nested::bilinear_interpolation(depth, lon, lat);
  let (h, dx, dy) = hp::nested::hash_with_dxdy(depth, lon, lat);
  c19_check(depth, &res, h, dx, dy);
}

#[cfg(not(kani))]
pub fn p_c19_pullback(depth: u8, x: f64, y: f64) {
  if !(x.is_finite() && y >= -2.0 && y <= 2.0) { return; }
  let (lon, lat) = hp::unproj(x.rem_euclid(8.0), y);
  let mut a = -12i64;
  while a <= 12 {
    let mut b = -12i64;
    while b <= 12 {
      let lo = f64::from_bits((lon.to_bits() as i64).wrapping_add(a) as u64);
      let la = f64::from_bits((lat.to_bits() as i64).wrapping_add(b) as u64);
      if lo.is_finite() && la.is_finite() { p_c19_point(depth, lo, la); }
      b += 1;
    }
    a += 1;
  }
}

/// Native: the position at offsets (a/256, b/256) of cell h (offsets of exactly 1 are pulled slightly inside).
#[cfg(not(kani))]
pub fn p_c19_cell(depth: u8, h: u64, a: u16, b: u16) {
  if !(depth <= 29 && h < spec_n_hash(depth) && a <= 256 && b <= 256) { return; }
  let dx = (a as f64 / 256.0).min(0.9999999);
  let dy = (b as f64 / 256.0).min(0.9999999);
  let (lon, lat) = hp::nested::sph_coo(depth, h, dx, dy);
  p_c19_point(depth, lon, lat);
}
