#!/usr/bin/env python3
"""Regenerates /verif/MANIFEST.json from harness/registry.py + harness/manifest_text.py."""
import json, os, sys
VERIF = os.path.dirname(os.path.dirname(os.path.abspath(__file__)))
sys.path.insert(0, os.path.join(VERIF, 'harness'))
import registry, manifest_text as mt

checks = []
for pid in sorted(registry.PROPS):
    if pid not in mt.READY:
        continue
    t = mt.CHECKS[pid]
    checks.append({
        'property_id': pid,
        'quick_cmd': './check %s --tier quick' % pid,
        'thorough_cmd': './check %s --tier thorough' % pid,
        'evidence_file': '/verif/evidence/%s.json' % pid,
        'replay_cmd_template': './check %s --replay {path}' % pid,
        'engine': 'kani-incrate',
        'level_claimed': {'category': 'model_checking', 'text': t['text'], 'design_ref': t['design_ref']},
        'level_note': t['note'],
        'technique': t.get('technique', 'bounded model checking of the compiled Rust code: Kani proof harnesses over kani::any() inputs, '
                                        'CBMC bit-blasting, CaDiCaL SAT verdict; counter-examples replayed natively'),
    })
na = [{'property_id': p, 'reason': r} for p, r in sorted(mt.NOT_APPLICABLE.items())]
na += [{'property_id': p, 'reason': mt._PENDING} for p in sorted(registry.PROPS) if p not in mt.READY]
na.sort(key=lambda d: d['property_id'])
m = {
    'version': 1,
    'setup_cmd': './setup.sh',
    'hooks': mt.HOOKS,
    'engines': [{
        'name': 'kani-incrate', 'path': '/verif/check',
        'serves_properties': sorted(mt.READY),
        'kind_free_text': 'Kani 0.68 / CBMC 6.11 / CaDiCaL over a fresh snapshot of /repo/src with harness modules injected under cfg(kani); '
                          'native replay crate /verif/replay (path dependency on /repo) confirms every counter-example before it is reported',
    }],
    'checks': checks,
    'notes': mt.NOTES,
    'not_applicable': na,
}
with open(os.path.join(VERIF, 'MANIFEST.json'), 'w') as f:
    json.dump(m, f, indent=1)
print('MANIFEST.json: %d checks, %d not applicable' % (len(checks), len(na)))
