// C10 -- NESTED <-> RING conversion is a bijection that realises the RING ordering.

/// Sort key of the RING order read off the integer plane oracle: rings by decreasing Y, cells by increasing X in [0, 8 nside).
fn c10_key(depth: u8, h: u64) -> (i64, i64) {
  let (b, i, j) = spec_decode(depth, h);
  let (x, y) = plane_center(depth, b, i, j);
  (-y, x)
}

/// RING index r (and r+1 when it exists).
pub fn p_c10_ring(depth: u8, r: u64) {
  let nh = spec_n_hash(depth);
  if !(depth <= 29 && r < nh) { return; }
  let layer = hp::nested::get_or_create(depth);
  let h = layer.from_ring(r);
  assert!(h < nh, "C10: from_ring returns a cell number out of range");
  assert!(layer.to_ring(h) == r, "C10: to_ring(from_ring(r)) != r");
  if r + 1 < nh {
    let h1 = layer.from_ring(r + 1);
    assert!(h1 < nh, "C10: from_ring returns a cell number out of range");
    let (k0, k1) = (c10_key(depth, h), c10_key(depth, h1));
    assert!(k0.0 < k1.0 || (k0.0 == k1.0 && k0.1 < k1.1),
            "C10: increasing RING index does not go by non-increasing latitude then increasing longitude");
  }
}

/// NESTED cell number h.
pub fn p_c10_nested(depth: u8, h: u64) {
  let nh = spec_n_hash(depth);
  if !(depth <= 29 && h < nh) { return; }
  let layer = hp::nested::get_or_create(depth);
  let r = layer.to_ring(h);
  assert!(r < nh, "C10: to_ring returns an index out of range");
  assert!(layer.from_ring(r) == h, "C10: from_ring(to_ring(h)) != h");
}

/// For nside = 2^depth the RING-scheme centre of r is the NESTED centre of from_ring(r) (both = the plane oracle centre).
pub fn p_c10_centres(depth: u8, r: u64) {
  let nh = spec_n_hash(depth);
  if !(depth <= 29 && r < nh) { return; }
  let layer = hp::nested::get_or_create(depth);
  let h = layer.from_ring(r);
  if h >= nh { return; }   // reported by p_c10_ring
  let (xr, yr) = hp::ring::center_of_projected_cell(1u32 << depth, r);
  let (xn, yn) = layer.center_of_projected_cell(h);
  assert!(xr == xn && yr == yn, "C10: RING centre of r differs from the NESTED centre of from_ring(r)");
  let (b, i, j) = spec_decode(depth, h);
  let (cx, cy) = plane_center(depth, b, i, j);
  let n = (1u64 << depth) as f64;
  assert!(xn == cx as f64 / n && yn == cy as f64 / n, "C10: NESTED centre differs from the plane oracle centre");
}
