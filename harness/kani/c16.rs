fn k_c16_bsd() {
  let r: f64 = kani::any();
  kani::cover!(r == C16_TABLE[17], "r exactly a table entry");
  kani::cover!(r < 0.0, "negative r");
  kani::cover!(r.is_nan(), "NaN");
  kani::cover!(r > 0.0 && r < 1e-300, "tiny r");
  p_c16_bsd(r);
}
fn k_c16_each_depth(d: u8) {
  // witness + exactness at one depth: the interval [table[d+1], table[d]) maps to d
  let r: f64 = kani::any();
  kani::assume(r < C16_TABLE[d as usize] && (d == 29 || r >= C16_TABLE[d as usize + 1]));
  kani::cover!(true, "interval non empty");
  assert!(hp::best_starting_depth(r) == d, "C16: wrong depth for a radius inside the interval of this depth");
}
fn k_c16_monotone() {
  let k: u8 = kani::any();
  kani::assume(k < 29);
  p_c16_table_monotone(k);
}
fn k_c16_guard() {
  let r: f64 = kani::any();
  kani::assume(!hp::has_best_starting_depth(r));
  kani::cover!(r.is_nan(), "NaN refused");
  let _ = hp::best_starting_depth(r);
  kani::cover!(true, "guard bypassed");
}
