// Kani side of C18: symbolic inputs + preconditions + reachability witnesses; the property itself is in props/c18.rs.

fn k_c18_ij2h(dmin: u8, dmax: u8) {
  let d: u8 = kani::any();
  let i: u32 = kani::any();
  let j: u32 = kani::any();
  kani::assume(d >= dmin && d <= dmax);
  kani::assume((i as u64) < (1u64 << d) && (j as u64) < (1u64 << d));
  kani::cover!(d == dmax && i as u64 == (1u64 << d) - 1 && j == 0, "top i, deepest depth of the class");
  kani::cover!(d == dmin, "shallowest depth of the class");
  p_c18_ij2h(d, i, j);
}

fn k_c18_h2ij(dmin: u8, dmax: u8) {
  let d: u8 = kani::any();
  let h: u64 = kani::any();
  kani::assume(d >= dmin && d <= dmax);
  kani::assume(h < (1u64 << (2 * d as u32)));
  kani::cover!(d == dmax && h == (1u64 << (2 * d as u32)) - 1, "largest hash of the class");
  p_c18_h2ij(d, h);
}

fn k_c18_xor() {
  let i: u32 = kani::any();
  let j: u32 = kani::any();
  kani::cover!(i == u32::MAX && j == 1, "full width");
  p_c18_xor(i, j);
}

fn k_c18_lut_full() {
  let i: u32 = kani::any();
  let j: u32 = kani::any();
  kani::cover!(i == u32::MAX && j == 1, "full width");
  p_c18_lut_full(i, j);
}

fn k_c18_uniq() {
  let d: u8 = kani::any();
  let h: u64 = kani::any();
  kani::assume(d <= 29 && h < spec_n_hash(d));
  kani::cover!(d == 29 && h == spec_n_hash(29) - 1, "last cell of depth 29");
  kani::cover!(d == 0 && h == 11, "last base cell");
  p_c18_uniq(d, h);
}

fn k_c18_uniq_inj() {
  let d1: u8 = kani::any();
  let h1: u64 = kani::any();
  let d2: u8 = kani::any();
  let h2: u64 = kani::any();
  kani::assume(d1 <= 29 && h1 < spec_n_hash(d1) && d2 <= 29 && h2 < spec_n_hash(d2));
  kani::cover!(d1 == 29 && d2 == 28, "adjacent depths");
  p_c18_uniq_inj(d1, h1, d2, h2);
}

fn k_c18_uniq_layer(d: u8) {
  let h: u64 = kani::any();
  kani::assume(h < spec_n_hash(d));
  kani::cover!(h == spec_n_hash(d) - 1, "last cell");
  p_c18_uniq_layer(d, h);
}

fn k_c18_uniq_guard(ivoa: bool) {
  let d: u8 = kani::any();
  let h: u64 = kani::any();
  kani::assume(d > 29);
  if ivoa { let _ = hp::nested::to_uniq_ivoa(d, h); } else { let _ = hp::nested::to_uniq(d, h); }
  kani::cover!(true, "guard bypassed");
}
