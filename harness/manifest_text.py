"""Texts of MANIFEST.json (levels, notes, not-applicable reasons)."""

HOOKS = {
    'guard': 'none: /repo carries no instrumentation; harness modules are injected under cfg(kani) into a scratch snapshot of /repo/src taken at the start of every run',
    'enable': 'cargo kani -Z stubbing on the snapshot (cfg(kani) is set by Kani itself); nothing to enable in /repo',
    'baseline_off_cmd': 'cd /repo && cargo test --workspace --no-fail-fast --offline',
    'source_commits': [],
    'add_only': True,
}

NOTES = ('All checks are bounded: each harness is decided by the SAT solver for every value of its symbolic domain and says '
         'nothing outside the bounds written in its evidence file (coverage.bounds / outside_bounds / samples[].domain). '
         'A harness that hits its time / memory cap is reported UNDECIDED (listed in the evidence, never counted as held) and does not change the exit code. '
         'Exit 2 = inconclusive (harness no longer compiles against the code, unwinding assertion, unsatisfied reachability witness, libm contract validation failed, '
         'counter-example not reproduced natively, or nothing decided within the caps). Genuine defects found and repaired in /repo are listed in known_findings.json (fixed: entries suppress nothing); '
         'changes seeded to test the checks are under seeded/ (never applied to /repo).')

_PENDING = 'check built but not yet validated on the unchanged tree in this session (see DESIGN.md section 10); claimed once its quick tier passes'

NOT_APPLICABLE = {
    'C05': 'every clause needs true spherical distances (haversine, asin o sqrt, f64 % f64 envelope) inside a recursive heap-allocating search; a bit-precise solver has no theory of sin/cos and contract stubs make the statement vacuous (DESIGN.md section 6)',
    'C12': 'point-in-polygon by great-circle crossings, bounding cone, Newton iteration: real trigonometry throughout, no discrete clause (well-formedness is covered structurally under C09) (DESIGN.md section 6)',
    'C13': 'SIN projection + Mahalanobis overlap heuristic on real trigonometry; the only discrete clause is a one-line guard (DESIGN.md section 6)',
    'C20': 'quantifies over thread interleavings of an unsynchronised static mut read; Kani does not model threads and no other symbolic engine for Rust concurrency is installed (DESIGN.md section 6)',
}

# properties whose check is registered in MANIFEST.json (validated on the unchanged tree)
READY = ['C01','C02','C03','C04','C06','C07','C08','C09','C10','C11','C14','C15','C16','C17','C18','C19']

CHECKS = {
    'C01': dict(
        text='Bounded model checking over all doubles: (E) the public nested::hash at concrete depths is total and in range for every lon in [-25.2, 25.2] and lat in '
             '[-pi/2, pi/2] under libm contracts; (R)+(P) the real base-cell / in-cell computation satisfies the range facts the scaling relies on and agrees with the '
             'reference projection within 2^-46; (S) the exponent-bit scaling, clamp and bit interleaving give exactly floor of the scaled in-cell coordinates for every depth 0..29 '
             '(symbolic) and every interface value; (G) out-of-range or NaN latitudes panic. Counter-examples are confirmed natively against a reference projection + point-in-diamond oracle.',
        design_ref='DESIGN.md sections 3.2, 3.3, 5 C01',
        note='Assumes the libm contracts (validated on the platform libm each run) and the assume-guarantee cut at Layer::d0h_lh_in_d0c (R proved on the producer, assumed by the consumer; '
             'the north-cap part of R takes 20-25 min per harness and runs in the thorough tier only -- the quick tier covers the north cap end to end at depths 0..3). '
             'P in the polar caps: base cell, h, sign and range of l for every position; the exact value of l (a second symbolic 53x53 multiplier) only in the thorough tier for cosines with <= 6 significant bits. |lon| <= 25.2.',
    ),
    'C02': dict(
        text='hash at depth d equals hash at depth d+1 shifted by 2 bits for every finite in-cell coordinate pair satisfying lemma R (all doubles, incl. values on and 1 ulp around every cell border) '
             'and every d in 0..28 (symbolic); lemma R itself is decided on the real producer for every position. Non-adjacent depths follow by transitivity.',
        design_ref='DESIGN.md sections 3.3, 5 C02',
        note='Assume-guarantee cut at the depth-independent Layer::d0h_lh_in_d0c (no self parameter: depth independence by signature); libm contracts for lemma R '
             '(north-cap part of R: thorough tier only, 20-25 min per harness).',
    ),
    'C03': dict(
        text='Plane-level consistency of the accessors, per depth, for every cell: centre = plane oracle and hashes back with offsets (0.5, 0.5); vertex / vertices / vertices_map bit-identical and = centre +- 1/nside; '
             'every edge-path / grid point lies on the cell and, nudged inwards, hashes back (thorough); hash_with_dxdy is total on the HEALPix image, in range, offsets in [-2^-48 nside, 1]; for image points whose offsets hit '
             'the bounds (polar base-cell borders, poles, rounding) the returned cell contains the point; out-of-range cell numbers panic for all 9 accessors.',
        design_ref='DESIGN.md sections 3.3, 5 C03',
        note='Plane cut: proj returns an arbitrary image point (guarantee I: decided in C17 for the equatorial region, assumed in the polar caps), unproj is the identity on the plane; Layer::d0h_lh_in_d0c under the cut returns any placement of '
             'the same plane point within 2^-46 (lemmas R / P of C01). NOT decided by a registered command (undecided after 40 min per harness, tier extended; native oracle only): sph_coo inverts hash_with_dxdy for generic offsets, the '
             'interior-offset round trip, the hash (hash_v2) vs hash_with_dxdy clause and the 1e-13 rad figure.',
    ),
    'C06': dict(
        text='Discrete clauses only: a radius >= pi gives exactly the 12 full base cells for every centre (incl. NaN) and every (depth, delta_depth) listed; pack leaves no four full siblings and '
             'preserves the cell->state map; the recursive descent pushes full / partial / descends exactly according to the per-level thresholds and always produces a well formed sequence, '
             'whatever the distances are.',
        design_ref='DESIGN.md section 5 C06',
        note='NOT decided: that distance <= min means "entirely inside the cone", and the radius + 2*c2v tightness (true haversine distance and c2v envelope). A threshold-logic counter-example has no '
             'public-API replay and is reported as inconclusive (exit 2).',
    ),
    'C07': dict(
        text='On canonical plain MOCs (all full, packed) of bounded shape, not/and/or/xor equal complement/intersection/union/symmetric difference pointwise for a symbolic probe cell, outputs are well '
             'formed, and/not outputs are packed, equals implies equal sets, a xor a is empty; or/xor packedness = well-formedness here + the pack lemma (C15 harnesses).',
        design_ref='DESIGN.md section 5 C07/C08',
        note='Bounds: depth_max <= 2, operand shapes listed in the evidence. Allocator-growth model and pack cut as stated in the assumptions.',
    ),
    'C08': dict(
        text='Three-valued semantics (absent/partial/full) of not/and/or/xor decided pointwise for a symbolic probe cell on operands with arbitrary flags and depths of bounded shape, '
             'including a low-resolution partial cell meeting deeper full cells and operands of different depth_max; every output well formed.',
        design_ref='DESIGN.md section 5 C07/C08',
        note='Bounds: depth_max <= 2, operand shapes listed in the evidence (quick: and up to (2,2), not (1), or/xor (1,1)). Allocator-growth model and pack cut as stated.',
    ),
    'C09': dict(
        text='For every valid BMOC of bounded shape: into_iter decodes the entries, flat_iter / flat_iter_cell / to_flat_array enumerate exactly the covered deepest-level cells in increasing order with the '
             'right flags, deep_size is their number, to_ranges is sorted, disjoint, non adjacent and covers the same set; the public builder stores the documented raw layout; operator outputs are well formed.',
        design_ref='DESIGN.md section 5 C09',
        note='Bounds in the evidence. Outputs of cone / polygon / ellipse queries are covered only structurally (C06 recursion harness for the cone).',
    ),
    'C10': dict(
        text='Per depth and region: to_ring(from_ring(r)) = r and from_ring(to_ring(h)) = h on the whole range, consecutive RING indices have strictly increasing (-Y, X) centre keys (plane oracle), '
             'the RING-scheme centre of r equals the NESTED centre of from_ring(r) and the oracle centre; deep polar caps: first/last cells of ring windows.',
        design_ref='DESIGN.md section 5 C10',
        note='Polar caps: every index only up to depth 2 (quick) / 8 (thorough); at depths 26 and 29 only the ring ends of windows of 64 rings. Equatorial region: every index at the listed depths.',
    ),
    'C11': dict(
        text='Per nside: every image point hashes to a cell number in range with offsets in [0, 1] whose diamond (centre +- 1/nside) contains the point; the centre of every cell hashes back with offsets (0.5, 0.5); '
             'sph_coo inverts hash_with_dxdy; consecutive centres are ordered (non-increasing latitude, increasing longitude); out-of-range numbers / latitudes panic.',
        design_ref='DESIGN.md section 5 C11',
        note='Plane cut (proj -> arbitrary image point). Quick: every image point at nside 1, 2 (polar base-cell borders included, and separately restricted to them), centres at nside 1, 2, 3, 5, order at nside 1, 2, 3; thorough adds points at nside 3, 5 split by base-cell column and centres / order at more nside values.',
    ),
    'C14': dict(
        text='Per (depth, delta_depth), for every cell: internal_edge is the closed walk S->E->N->W of the border descendants, the sorted variant is the same set increasing, corner/side helpers match; '
             'the direction tables used to orient the internal side of a neighbour across a base-cell seam are right for every cell and direction (adjacency oracle). '
             'The assembly of external_edge(_sorted / _struct) from these ingredients against the plane oracle is built (c14_external_*, c14_struct_*) but did not finish within 40 min at 40 GB: tier extended, not claimed.',
        design_ref='DESIGN.md section 5 C14',
        note='Bounds: (depth, delta) pairs listed in the evidence, delta <= 2. The external-edge clause of the property is decided only through its ingredients (neighbours by C04, seam direction tables, internal sides); see outside_bounds in the evidence.',
    ),
    'C15': dict(
        text='pack preserves the cell->state map, well-formedness and leaves no four full siblings for every valid sequence of bounded length; to_lower_depth keeps a coarse cell iff something overlapped it and marks '
             'it full only if covered by a full cell; the fixed-depth builder returns exactly the pushed set with the flag for every push order / duplicates / buffer capacity of bounded size, None iff nothing pushed.',
        design_ref='DESIGN.md section 5 C15',
        note='Bounds: <= 4 entries / pushes, depth <= 2, capacities 1..4 (evidence). In fixed-depth-builder harnesses the pack step of or is cut (decided by the pack harnesses); the merge step buff_to_bmoc is also decided alone on every strictly increasing buffer of 4 cells (the state after sort + dedup).',
    ),
    'C17': dict(
        text='For every double position: proj is in [-8,8]x[-2,2] with the sign of lon; in the equatorial region it is inside the HEALPix image and equals the Calabretta-Roukema expressions within 2^-46 from the same libm values (decided compositionally: the real pm1_offset_decompose against its specification, the real proj over any decomposition value allowed by it); in the polar caps range, sign and side of the column centre (the image clause and the value of the Collignon expressions there are NOT decided by a registered tier, see note); '
             'unproj is in range with the right sign on the whole plane domain; base_cell_from_proj_coo returns a base cell whose closed diamond contains the point for every image point; out-of-range lat / y panic.',
        design_ref='DESIGN.md section 5 C17',
        note='The two 1e-14 round trips depend on the accuracy of the actual libm and are evaluated only by the native oracle on replay, not decided by the solver. The polar-cap image clause and Collignon value clauses (float-multiplier monotonicity / equivalence) were undecided after 40 min per harness and live in tier extended; they are stated as assumptions (guarantee I) by the plane-cut checks C03, C11, C19. unproj additionally: longitude in the quarter of the facet column of x, on the same side of its central meridian.',
    ),
    'C19': dict(
        text='Per depth, for every cell and every offset pair on the 1/256 lattice of [0, 1]^2: four weights in [0, 1] summing to 1 within 1e-12, cells = the cell or its neighbours, that cell present, weight 1 on it at its centre, '
             'zero-weight filler next to a three-cell point, barycentre = the position when the four cells share a base cell.',
        design_ref='DESIGN.md section 5 C19',
        note='Cut at hash_with_dxdy (decided in C03): the harness supplies the cell and the offsets. Offsets restricted to multiples of 1/256.',
    ),
    'C04': dict(
        text='Bounded model checking per depth: for EVERY cell a and EVERY other cell c of the depth (both symbolic) the neighbour map of a is '
             'compared with an integer plane-geometry oracle (vertex coordinates in units of 1/nside, polar-cap seam identifications): each '
             'ordinal entry shares exactly the two vertices of that edge, each cardinal entry exactly that vertex, the number of entries is '
             '8 minus the number of three-cell points among the vertices, neighbour(h,dir) agrees with the map, and c touches a <=> c is in the map '
             '(which gives exactness and symmetry). Out-of-range cell numbers must panic. Seam cells are a measure-zero set that tests miss; the solver covers all pairs.',
        design_ref='DESIGN.md section 5, C04',
        note='Trusted: Kani/CBMC/CaDiCaL, the plane oracle (harness/common/oracles.rs). Bound: the depths listed in the evidence (quick 0..3, thorough up to 29 as they complete); '
             'one harness per concrete depth.',
    ),
    'C16': dict(
        text='Table clause only: for every IEEE double r, best_starting_depth(r) returns d with limit(d) > r and (d = 29 or limit(d+1) <= r), '
             'has_best_starting_depth(r) <=> r < limit(0), refused radii panic, the table is strictly decreasing. Comparisons only, decided for all 2^64 doubles.',
        design_ref='DESIGN.md section 5, C16',
        note='NOT decided (stated): that the centre-to-vertex helpers dominate the true distances and that a cone of radius r fits in 9 cells at that depth -- '
             'true spherical trigonometry and f64 % f64, outside the reach of a bit-precise solver. Trusted: the documented table copied into the oracle.',
    ),
    'C18': dict(
        text='Bounded model checking at full machine width: every z-order implementation of the default build (Empty/Small/Mediu/Large LUT, '
             'LargeZOCxor) is compared with a 32-step bit-loop specification for every depth of its class and every (i, j) / every hash, in both '
             'directions; to_uniq/from_uniq(_ivoa) round trip, closed form and injectivity for every depth and hash; depth > 29 rejected. '
             'The domain is finite and the solver covers all of it, which sampling cannot (2^58 inputs per class).',
        design_ref='DESIGN.md section 5, C18',
        note='Trusted: rustc->Kani->CBMC->CaDiCaL, the bit-loop oracle. Outside: BMI2 (pdep/pext) build, never compiled by the default build or the test-suite.',
    ),
}
