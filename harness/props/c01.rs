// C01 / C02 -- NESTED hash: total, in range, contains the point; hierarchical across depths.

/// Tolerance of the containment test, in units of the projection plane (a base cell has half diagonal 1): the rounding
/// error of the reference projection itself for |lon| <= 8 pi. At depth 29 this is 2e-5 of a cell.
pub const C01_TOL: f64 = 4e-14;

/// Range only (usable by the solver: no libm call in the oracle).
pub fn p_c01_range(depth: u8, lon: f64, lat: f64) {
  if !(depth <= 29 && lat >= -0.5 * REF_PI && lat <= 0.5 * REF_PI && lon.abs() <= 25.2) { return; }
  let h = hp::nested::hash(depth, lon, lat);
  assert!(h < spec_n_hash(depth), "C01: nested hash out of range");
}

/// Native check of one position at one depth: range + containment against the reference projection (real libm).
#[cfg(not(kani))]
pub fn p_c01_point(depth: u8, lon: f64, lat: f64) {
  if !(depth <= 29 && lat >= -0.5 * REF_PI && lat <= 0.5 * REF_PI && lon.abs() <= 25.2) { return; }
  let h = hp::nested::hash(depth, lon, lat);
  assert!(h < spec_n_hash(depth), "C01: nested hash out of range");
  let (x, y) = ref_proj(lon, lat);
  let e = ref_excess(depth, h, x, y);
  assert!(e <= C01_TOL, "C01: the position is not inside (or on the border of) the returned cell: depth {} lon {:e} ({:#x}) lat {:e} ({:#x}) hash {} excess {:e}",
          depth, lon, lon.to_bits(), lat, lat.to_bits(), h, e);
}

/// Native: all 30 depths for one position + the prefix property between all of them.
#[cfg(not(kani))]
pub fn p_c01_all_depths(lon: f64, lat: f64) {
  if !(lat >= -0.5 * REF_PI && lat <= 0.5 * REF_PI && lon.abs() <= 25.2) { return; }
  let mut prev = 0u64;
  let mut d = 0u8;
  while d <= 29 {
    p_c01_point(d, lon, lat);
    let h = hp::nested::hash(d, lon, lat);
    if d > 0 { assert!(h >> 2 == prev, "C02: the depth-d cell is not the parent of the depth-(d+1) cell of the same position"); }
    prev = h;
    d += 1;
  }
}

/// Native neighbourhood search around a position (+-w ulp in both coordinates): used to pull a counter-example found at a cut
/// interface back to the public API. Panics with the first failing position.
#[cfg(not(kani))]
pub fn p_c01_neighbourhood(lon: f64, lat: f64, w: i64) {
  let mut a = -w;
  while a <= w {
    let lo = f64::from_bits((lon.to_bits() as i64).wrapping_add(a) as u64);
    let mut b = -w;
    while b <= w {
      let la = f64::from_bits((lat.to_bits() as i64).wrapping_add(b) as u64);
      if lo.is_finite() && la.is_finite() { p_c01_all_depths(lo, la); }
      b += 1;
    }
    a += 1;
  }
}

/// Replay search for a solver counter-example (lon, lat) found under libm contracts: the solver chose the libm values, so the
/// exact position need not fail with the real libm. Search: the position itself, its +-16 ulp neighbourhood, and the same
/// with the longitude snapped to the nearest multiple of pi/4 (both signs, +-2pi) and the latitude snapped to 0, +-asin(2/3), +-pi/2.
#[cfg(not(kani))]
pub fn p_c01_search(lon: f64, lat: f64) {
  p_c01_all_depths(lon, lat);
  p_c01_neighbourhood(lon, lat, 16);
  let k = (lon / (0.25 * REF_PI)).round();
  let t = 0.72972765622696636344_f64;
  let lats = [lat, 0.0, t, -t, 0.5 * REF_PI, -0.5 * REF_PI];
  let mut dk = -1.0;
  while dk <= 1.0 {
    let l0 = (k + dk) * 0.25 * REF_PI;
    let lons = [l0, l0 - 2.0 * REF_PI, l0 + 2.0 * REF_PI, -l0];
    let mut a = 0usize;
    while a < 4 {
      let mut b = 0usize;
      while b < 6 {
        if lons[a].abs() <= 25.2 { p_c01_neighbourhood(lons[a], lats[b], 3); }
        b += 1;
      }
      a += 1;
    }
    dk += 1.0;
  }
}

/// Pull back of an interface triple (base cell, l, h) to the sphere (public unproj) and search around it.
#[cfg(not(kani))]
pub fn p_c01_pullback(d0h: u8, l: f64, h: f64) {
  if !(d0h < 12 && l.is_finite() && h.is_finite()) { return; }
  let x = BASE_CX[d0h as usize] as f64 + l;
  let mut y = BASE_CY[d0h as usize] as f64 + h - 1.0;
  if y > 2.0 { y = 2.0; }
  if y < -2.0 { y = -2.0; }
  let xm = x.rem_euclid(8.0);
  let (lon, lat) = hp::unproj(xm, y);
  p_c01_neighbourhood(lon, lat, 24);
  p_c01_neighbourhood(lon - 2.0 * REF_PI, lat, 8);
  p_c01_search(lon, lat);
}

pub fn p_c01_guard(depth: u8, lon: f64, lat: f64) {
  if !(depth <= 29) || (lat >= -0.5 * REF_PI && lat <= 0.5 * REF_PI) { return; }
  let _ = hp::nested::hash(depth, lon, lat);
  panic!("C01-GUARD-NOT-TRIGGERED: a latitude outside [-pi/2, pi/2] was mapped to a cell");
}
