// C14 -- internal / external edges of a cell are exactly its deeper-depth border rings.
use hp::compass_point::{Cardinal, Ordinal};

/// (i', j') of the k-th cell of the closed walk S -> E -> N -> W along the border of a 2^delta x 2^delta grid.
fn c14_walk(delta: u8, k: u32) -> (u32, u32) {
  let m = (1u32 << delta) - 1;
  if k < m { (k, 0) } else if k < 2 * m { (m, k - m) } else if k < 3 * m { (m - (k - 2 * m), m) } else { (0, m - (k - 3 * m)) }
}

fn c14_sub(hash: u64, delta: u8, i: u32, j: u32) -> u64 {
  (hash << (2 * delta as u32)) | spec_encode(delta, 0, i, j)
}

fn c14_is_border_descendant(hash: u64, delta: u8, c: u64) -> bool {
  let m = (1u32 << delta) - 1;
  if (c >> (2 * delta as u32)) != hash { return false; }
  let (_, i, j) = spec_decode(delta, c & ((1u64 << (2 * delta as u32)) - 1));
  i == 0 || j == 0 || i == m || j == m
}

/// internal edge: k is a symbolic position in the walk, k2 a symbolic position of the sorted variant.
pub fn p_c14_internal(depth: u8, delta: u8, hash: u64, k: u32, k2: u32) {
  if !(delta >= 1 && depth as u32 + delta as u32 <= 29 && hash < spec_n_hash(depth)) { return; }
  let m = (1u32 << delta) - 1;
  if !(k < 4 * m && k2 < 4 * m) { return; }
  let e = hp::nested::internal_edge(depth, hash, delta);
  assert!(e.len() == 4 * m as usize, "C14: internal edge does not have 4*2^delta-4 cells");
  let (wi, wj) = c14_walk(delta, k);
  assert!(e[k as usize] == c14_sub(hash, delta, wi, wj), "C14: internal edge is not the closed walk S->E->N->W of the border descendants");
  let s = hp::nested::internal_edge_sorted(depth, hash, delta);
  assert!(s.len() == 4 * m as usize, "C14: sorted internal edge does not have 4*2^delta-4 cells");
  assert!(c14_is_border_descendant(hash, delta, s[k2 as usize]), "C14: sorted internal edge contains a cell that is not a border descendant");
  if k2 + 1 < 4 * m { assert!(s[k2 as usize] < s[k2 as usize + 1], "C14: sorted internal edge is not strictly increasing"); }
}

/// corner / side helpers
pub fn p_c14_parts(depth: u8, delta: u8, hash: u64, k: u32) {
  if !(delta >= 1 && depth as u32 + delta as u32 <= 29 && hash < spec_n_hash(depth)) { return; }
  let m = (1u32 << delta) - 1;
  if k > m { return; }
  assert!(hp::nested::internal_corner(hash, delta, &Cardinal::S) == c14_sub(hash, delta, 0, 0), "C14: internal_corner S");
  assert!(hp::nested::internal_corner(hash, delta, &Cardinal::E) == c14_sub(hash, delta, m, 0), "C14: internal_corner E");
  assert!(hp::nested::internal_corner(hash, delta, &Cardinal::N) == c14_sub(hash, delta, m, m), "C14: internal_corner N");
  assert!(hp::nested::internal_corner(hash, delta, &Cardinal::W) == c14_sub(hash, delta, 0, m), "C14: internal_corner W");
  let se = hp::nested::internal_edge_part(hash, delta, &Ordinal::SE);
  let sw = hp::nested::internal_edge_part(hash, delta, &Ordinal::SW);
  let ne = hp::nested::internal_edge_part(hash, delta, &Ordinal::NE);
  let nw = hp::nested::internal_edge_part(hash, delta, &Ordinal::NW);
  let n = m as usize + 1;
  assert!(se.len() == n && sw.len() == n && ne.len() == n && nw.len() == n, "C14: internal_edge_part has the wrong length");
  assert!(se[k as usize] == c14_sub(hash, delta, k, 0), "C14: internal_edge_part SE");
  assert!(sw[k as usize] == c14_sub(hash, delta, 0, k), "C14: internal_edge_part SW");
  assert!(ne[k as usize] == c14_sub(hash, delta, m, k), "C14: internal_edge_part NE");
  assert!(nw[k as usize] == c14_sub(hash, delta, k, m), "C14: internal_edge_part NW");
}

/// Does the deep cell `c` (depth+delta) touch the cell `hash` from outside? (plane oracle: shares a canonical vertex with a border descendant)
fn c14_outside_and_adjacent(depth: u8, delta: u8, hash: u64, c: u64) -> bool {
  let dd = depth + delta;
  if (c >> (2 * delta as u32)) == hash { return false; }
  let vc = plane_cell_vertices(dd, c);
  let m = (1u32 << delta) - 1;
  let mut k = 0u32;
  let mut touches = false;
  while k < 4 * m {
    let (wi, wj) = c14_walk(delta, k);
    let vb = plane_cell_vertices(dd, c14_sub(hash, delta, wi, wj));
    if plane_n_shared(&vb, &vc) > 0 { touches = true; }
    k += 1;
  }
  touches
}

/// external edge: `c` = any cell of depth+delta (universally quantified), k = symbolic index in the list
pub fn p_c14_external(depth: u8, delta: u8, hash: u64, c: u64, k: u32, sorted: bool) {
  let dd = depth + delta;
  if !(delta >= 1 && depth as u32 + delta as u32 <= 29 && hash < spec_n_hash(depth) && c < spec_n_hash(dd)) { return; }
  let e = if sorted { hp::nested::external_edge_sorted(depth, hash, delta) } else { hp::nested::external_edge(depth, hash, delta) };
  let mut n_in = 0u32;
  let mut t = 0usize;
  while t < e.len() {
    if e[t] == c { n_in += 1; }
    t += 1;
  }
  let expected = c14_outside_and_adjacent(depth, delta, hash, c);
  assert!(n_in <= 1, "C14: external edge lists a cell twice");
  assert!((n_in == 1) == expected, "C14: external edge is not exactly the set of outside cells adjacent to the cell");
  if sorted && (k as usize) + 1 < e.len() { assert!(e[k as usize] < e[k as usize + 1], "C14: sorted external edge is not strictly increasing"); }
}

fn c14_card(x: u8) -> Cardinal { match x { 0 => Cardinal::S, 1 => Cardinal::E, 2 => Cardinal::N, _ => Cardinal::W } }
fn c14_ord(o: u8) -> Ordinal { match o { 0 => Ordinal::SE, 1 => Ordinal::SW, 2 => Ordinal::NE, _ => Ordinal::NW } }

/// Oracle: does the outside cell c share the edge `o` (0 SE, 1 SW, 2 NE, 3 NW) of some border descendant lying on that side?
fn c14_side(depth: u8, delta: u8, hash: u64, c: u64, o: u8) -> bool {
  let dd = depth + delta;
  if (c >> (2 * delta as u32)) == hash { return false; }
  let vc = plane_cell_vertices(dd, c);
  let m = (1u32 << delta) - 1;
  let (va, vb) = match o { 0 => (0usize, 1usize), 1 => (0, 3), 2 => (2, 1), _ => (2, 3) };
  let mut t = 0u32;
  let mut r = false;
  while t <= m {
    let (i, j) = match o { 0 => (t, 0), 1 => (0, t), 2 => (m, t), _ => (t, m) };
    let v = plane_cell_vertices(dd, c14_sub(hash, delta, i, j));
    if plane_has_vertex(&vc, v[va]) && plane_has_vertex(&vc, v[vb]) { r = true; }
    t += 1;
  }
  r
}

/// Oracle: does the outside cell c touch the cell only at its corner x (0 S, 1 E, 2 N, 3 W)?
fn c14_corner(depth: u8, delta: u8, hash: u64, c: u64, x: u8) -> bool {
  let dd = depth + delta;
  if (c >> (2 * delta as u32)) == hash { return false; }
  let m = (1u32 << delta) - 1;
  let (i, j) = match x { 0 => (0, 0), 1 => (m, 0), 2 => (m, m), _ => (0, m) };
  let vb = plane_cell_vertices(dd, c14_sub(hash, delta, i, j));
  let vc = plane_cell_vertices(dd, c);
  plane_has_vertex(&vc, vb[x as usize])
    && !c14_side(depth, delta, hash, c, 0) && !c14_side(depth, delta, hash, c, 1)
    && !c14_side(depth, delta, hash, c, 2) && !c14_side(depth, delta, hash, c, 3)
}

/// structured variant: every external cell is filed under the corner / side it faces
pub fn p_c14_struct(depth: u8, delta: u8, hash: u64, c: u64) {
  let dd = depth + delta;
  if !(delta >= 1 && depth as u32 + delta as u32 <= 29 && hash < spec_n_hash(depth) && c < spec_n_hash(dd)) { return; }
  let st = hp::nested::external_edge_struct(depth, hash, delta);
  let mut x = 0u8;
  while x < 4 {
    let filed = match st.get_corner(&c14_card(x)) { Some(v) => v == c, None => false };
    assert!(filed == c14_corner(depth, delta, hash, c, x), "C14: external_edge_struct files a cell under the wrong corner (or misses a corner cell)");
    x += 1;
  }
  let mut o = 0u8;
  while o < 4 {
    let side = st.get_edge(&c14_ord(o));
    let mut n = 0u32;
    let mut t = 0usize;
    while t < side.len() { if side[t] == c { n += 1; } t += 1; }
    assert!(n <= 1, "C14: external_edge_struct lists a cell twice on one side");
    assert!((n == 1) == c14_side(depth, delta, hash, c, o), "C14: external_edge_struct files a cell under the wrong side (or misses a side cell)");
    o += 1;
  }
}

pub fn p_c14_guard(depth: u8, delta: u8, hash: u64, which: u8) {
  if !(depth as u32 + delta as u32 <= 29 && hash >= spec_n_hash(depth)) { return; }
  match which {
    0 => { let _ = hp::nested::external_edge(depth, hash, delta); }
    1 => { let _ = hp::nested::external_edge_sorted(depth, hash, delta); }
    _ => { let _ = hp::nested::external_edge_struct(depth, hash, delta); }
  }
  panic!("C14-GUARD-NOT-TRIGGERED: out-of-range cell number accepted by external_edge");
}

use hp::compass_point::MainWind;
fn c14_wind(k: u8) -> MainWind {
  match k { 0 => MainWind::S, 1 => MainWind::SE, 2 => MainWind::E, 3 => MainWind::SW,
            4 => MainWind::NE, 5 => MainWind::W, 6 => MainWind::NW, _ => MainWind::N }
}

/// The seam tables used by the external edges: for a cell `a` on a base-cell border whose neighbour `c` in direction `dir` lies in
/// another base cell, the tabulated "direction of a seen from c" must really lead from c back to a (neighbours is decided by C04).
pub fn p_c14_dirs(depth: u8, a: u64, k: u8) {
  let nh = spec_n_hash(depth);
  if !(depth <= 29 && a < nh && k < 8) { return; }
  let layer = hp::nested::get_or_create(depth);
  let (b, i, j) = spec_decode(depth, a);
  let m = (1u32 << depth) - 1;
  let c = match layer.neighbour(a, c14_wind(k)) { Some(c) => c, None => return };
  if (c >> (2 * depth as u32)) as u8 == b { return; }
  let back = if depth == 0 {
    hp::direction_from_neighbour(b, &c14_wind(k))
  } else {
    let ii = if i == 0 { 0u8 } else if i == m { 2 } else { 1 };
    let jj = if j == 0 { 0u8 } else if j == m { 2 } else { 1 };
    let inner = MainWind::from_index(3 * jj + ii);
    hp::edge_cell_direction_from_neighbour(b, &inner, &c14_wind(k))
  };
  assert!(layer.neighbour(c, back) == Some(a), "C14: the tabulated direction of a border cell seen from its neighbour in another base cell is wrong");
}
