// C07 / C08 / C09 (operator part) -- BMOC logical operators against the three-valued set semantics.
use hp::nested::bmoc::{BMOC, BMOCBuilderUnsafe};

/// Native side: operands are built through the public builder.
#[cfg(not(kani))]
pub fn bmoc_build(o: &Ops) -> BMOC {
  let mut b = BMOCBuilderUnsafe::new(o.dm, o.n);
  let mut k = 0usize;
  while k < o.n { b.push(o.d[k], o.h[k], o.f[k]); k += 1; }
  b.to_bmoc()
}

/// Solver side: same entries (documented raw layout) placed directly in a boxed slice -- avoids Vec growth in the model.
/// That the public builder produces exactly these raw values is decided separately (p_bmoc_builder_layout).
#[cfg(kani)]
pub fn bmoc_build(o: &Ops) -> BMOC {
  let r = [spec_raw(o.dm, o.d[0], o.h[0], o.f[0]), spec_raw(o.dm, o.d[1], o.h[1], o.f[1]),
           spec_raw(o.dm, o.d[2], o.h[2], o.f[2]), spec_raw(o.dm, o.d[3], o.h[3], o.f[3])];
  let b: Box<[u64]> = match o.n {
    0 => Box::new([]),
    1 => Box::new([r[0]]),
    2 => Box::new([r[0], r[1]]),
    3 => Box::new([r[0], r[1], r[2]]),
    _ => Box::new(r),
  };
  verif_create_unsafe(o.dm, b)
}

/// The public builder stores exactly the documented raw layout, in push order.
pub fn p_bmoc_builder_layout(o: &Ops) {
  if !o.valid() { return; }
  let mut b = BMOCBuilderUnsafe::new(o.dm, o.n);
  let mut k = 0usize;
  while k < o.n { b.push(o.d[k], o.h[k], o.f[k]); k += 1; }
  let m = b.to_bmoc();
  assert!(m.get_depth_max() == o.dm && m.entries.len() == o.n, "C09: builder changes the number of entries");
  k = 0;
  while k < o.n {
    assert!(m.entries[k] == spec_raw(o.dm, o.d[k], o.h[k], o.f[k]), "C09: raw entry layout differs from the documented one");
    let cell = m.from_raw_value(m.entries[k]);
    assert!(cell.depth == o.d[k] && cell.hash == o.h[k] && cell.is_full == o.f[k], "C09: Cell decoding does not invert the raw encoding");
    k += 1;
  }
}

/// op: 0 = not (b ignored), 1 = and, 2 = or, 3 = xor. `c`: probe cell of depth max(a.dm, b.dm), universally quantified.
/// mode: 0 = C08 (any flags), 1 = C07 (all full, packed operands: canonical form clauses added)
pub fn p_bmoc_op(op: u8, mode: u8, a: &Ops, b: &Ops, c: u64) {
  if !(a.valid() && (op == 0 || b.valid())) { return; }
  if mode == 1 && !(a.all_full() && a.packed() && (op == 0 || (b.all_full() && b.packed()))) { return; }
  let dm = if op == 0 || a.dm >= b.dm { a.dm } else { b.dm };
  if c >= spec_n_hash(dm) { return; }
  let ba = bmoc_build(a);
  let res = match op {
    0 => ba.not(),
    1 => ba.and(&bmoc_build(b)),
    2 => ba.or(&bmoc_build(b)),
    _ => ba.xor(&bmoc_build(b)),
  };
  assert!(res.get_depth_max() == dm, "BMOC operator: result depth_max is not the max of the operands'");
  let (bad, sr, unpacked) = spec_scan(dm, &res.entries, c);
  assert!(bad.is_none(), "C09: operator output is not well formed (encoding / range / order / overlap)");
  let sa = a.state(dm, c);
  let sb = if op == 0 { ABSENT } else { b.state(dm, c) };
  assert!(sr == spec_op(op, sa, sb), "C07/C08: operator result differs from the documented three-valued semantics at some cell");
  // in the solver harnesses of or / xor the final pack() is cut away (decided separately, see kani/c07.rs)
  if mode == 1 && !(cfg!(kani) && op >= 2) {
    assert!(unpacked.is_none(), "C07: operator output on plain MOCs is not in canonical packed form");
  }
}

/// identities on plain packed MOCs (C07): id: 0 = not(not a) equals a; 1 = a xor a is empty; 2 = a or not(a) is the 12 full base cells
pub fn p_bmoc_identity(id: u8, a: &Ops) {
  if !(a.valid() && a.all_full() && a.packed()) { return; }
  let ba = bmoc_build(a);
  match id {
    0 => { let r = ba.not().not(); assert!(r.equals(&ba) && ba.equals(&r), "C07: not(not(a)) != a"); }
    1 => { let r = ba.xor(&ba); assert!(r.entries.len() == 0, "C07: a xor a is not empty"); }
    _ => {
      let r = ba.or(&ba.not());
      assert!(r.entries.len() == 12, "C07: a or not(a) is not the whole sky as 12 base cells");
      let mut k = 0usize;
      while k < 12 { assert!(r.entries[k] == spec_raw(a.dm, 0, k as u64, true), "C07: a or not(a) is not the whole sky as 12 full base cells"); k += 1; }
    }
  }
}

/// `equals` coincides with equality of the cell->state maps on canonical plain MOCs of the same depth_max.
pub fn p_bmoc_equals(a: &Ops, b: &Ops, c: u64) {
  if !(a.valid() && b.valid() && a.all_full() && b.all_full() && a.packed() && b.packed() && a.dm == b.dm) { return; }
  if c >= spec_n_hash(a.dm) { return; }
  let (ba, bb) = (bmoc_build(a), bmoc_build(b));
  if ba.equals(&bb) {
    assert!(a.state(a.dm, c) == b.state(a.dm, c), "C07: structurally equal MOCs describe different sets");
  }
}

/// pack (through the public to_bmoc_packing): never changes the cell->state map, keeps the sequence well formed,
/// leaves no four full siblings.
pub fn p_pack(o: &Ops, c: u64) {
  if !(o.valid() && c < spec_n_hash(o.dm)) { return; }
  let mut b = BMOCBuilderUnsafe::new(o.dm, o.n);
  let mut k = 0usize;
  while k < o.n { b.push(o.d[k], o.h[k], o.f[k]); k += 1; }
  let m = b.to_bmoc_packing();
  assert!(m.get_depth_max() == o.dm, "C15: packing changes depth_max");
  let (bad, sr, unpacked) = spec_scan(o.dm, &m.entries, c);
  assert!(bad.is_none(), "C15/C09: packed sequence is not well formed");
  assert!(sr == o.state(o.dm, c), "C15: packing changes the cell->state map");
  assert!(unpacked.is_none(), "C15/C06: four full sibling cells left after packing");
  assert!(m.entries.len() <= o.n, "C15: packing lengthens the sequence");
}

/// to_lower_depth_bmoc(_packing): a coarse cell is kept iff it contained something; it is full only if it was entirely
/// covered by full cells. `c` is a deepest-level probe cell of the input.
pub fn p_lower(o: &Ops, nd: u8, packing: bool, c: u64) {
  if !(o.valid() && nd < o.dm && c < spec_n_hash(o.dm)) { return; }
  let mut b = BMOCBuilderUnsafe::new(o.dm, o.n);
  let mut k = 0usize;
  while k < o.n { b.push(o.d[k], o.h[k], o.f[k]); k += 1; }
  let m = if packing { b.to_lower_depth_bmoc_packing(nd) } else { b.to_lower_depth_bmoc(nd) };
  assert!(m.get_depth_max() == nd, "C15: lowered BMOC has the wrong depth_max");
  let coarse = c >> (2 * (o.dm - nd) as u32);
  let (bad, sr, _) = spec_scan(nd, &m.entries, coarse);
  assert!(bad.is_none(), "C15/C09: lowered sequence is not well formed");
  // does anything of the input overlap the coarse cell `coarse`?
  let mut overlaps = false;
  k = 0;
  while k < o.n {
    if o.d[k] <= nd { if (coarse >> (2 * (nd - o.d[k]) as u32)) == o.h[k] { overlaps = true; } }
    else if (o.h[k] >> (2 * (o.d[k] - nd) as u32)) == coarse { overlaps = true; }
    k += 1;
  }
  assert!((sr != ABSENT) == overlaps, "C15: lowering the depth does not keep exactly the coarse cells that contained something");
  if sr == FULL {
    assert!(o.state(o.dm, c) == FULL, "C15: a coarse cell is marked full although it was not entirely covered by full cells");
  }
}
