#!/usr/bin/env python3
"""Re-run, against the CURRENT /repo HEAD and the current harnesses, the detection of every seeded change under /verif/seeded
(scratch worktree outside /repo and /verif, removed at the end). Records the outcome in meta.json['recheck_on_head'].
usage: reverify_seeded.py [id ...]"""
import json, glob, os, re, subprocess, sys, shlex
WT = '/tmp/wt/HEADM'
ids = sys.argv[1:]
subprocess.run(['git', '-C', '/repo', 'worktree', 'remove', '--force', WT], capture_output=True)
subprocess.run(['git', '-C', '/repo', 'worktree', 'add', '--detach', WT, 'HEAD'], check=True, capture_output=True)
import shutil
shutil.copy('/repo/Cargo.lock', os.path.join(WT, 'Cargo.lock'))   # not tracked by git; the check snapshots it
head = subprocess.run(['git', '-C', '/repo', 'rev-parse', '--short', 'HEAD'], capture_output=True, text=True).stdout.strip()
try:
    for d in sorted(glob.glob('/verif/seeded/*')):
        mp = os.path.join(d, 'meta.json')
        if not os.path.exists(mp):
            continue
        m = json.load(open(mp))
        if ids and m['id'] not in ids:
            continue
        cr = m.get('check_run') or {}
        cmd = cr.get('cmd', '')
        mo = re.search(r'try_mutant\.sh (\S+) \S+ \S+patch\.diff ?(.*)$', cmd)
        if not mo:
            print(m['id'], 'no recorded command, skipped'); continue
        prop, args = mo.group(1), shlex.split(mo.group(2) or '--tier quick')
        subprocess.run(['git', '-C', WT, 'checkout', '-q', '--', '.'], check=True)
        r = subprocess.run(['git', '-C', WT, 'apply', os.path.join(d, 'patch.diff')], capture_output=True, text=True)
        if r.returncode != 0:
            m['recheck_on_head'] = {'head': head, 'result': 'patch does not apply: ' + r.stderr[:200]}
        else:
            env = dict(os.environ, VERIF_REPO=WT, VERIF_TAG='re-' + m['id'], VERIF_MAX_JOBS=os.environ.get('VERIF_MAX_JOBS', '3'))
            p = subprocess.run(['/verif/check', prop] + args, capture_output=True, text=True, env=env)
            viol = re.findall(r'^VIOLATION property=(\S+) replay=\S+\n  harness (\S+): (.*)$', p.stdout, re.M)
            m['recheck_on_head'] = {'head': head, 'cmd': 'VERIF_REPO=<worktree of HEAD + patch.diff> ./check %s %s' % (prop, ' '.join(args)), 'exit': p.returncode,
                                    'detected': bool(viol), 'violations': [{'harness': v[1], 'failed_check': v[2][:200]} for v in viol][:4],
                                    'other': re.findall(r'^(?:INCONCLUSIVE|UNDECIDED): (.*)$', p.stdout, re.M)[:3] + ([p.stderr[-200:]] if p.returncode not in (0, 1, 2) or (p.returncode == 1 and not viol) else [])}
        json.dump(m, open(mp, 'w'), indent=1)
        print(m['id'], json.dumps(m['recheck_on_head'])[:300], flush=True)
finally:
    subprocess.run(['git', '-C', '/repo', 'worktree', 'remove', '--force', WT], capture_output=True)
