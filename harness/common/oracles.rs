// Oracles that are independent of the code under test. Plain Rust (no kani items) so that the native
// replay crate compiles the very same file.

/// Bit-loop specification of the z-order curve: bits of i at even positions, bits of j at odd positions.
pub fn spec_interleave(i: u32, j: u32) -> u64 {
  let mut h = 0u64;
  let mut k = 0u32;
  while k < 32 {
    h |= (((i >> k) & 1) as u64) << (2 * k);
    h |= (((j >> k) & 1) as u64) << (2 * k + 1);
    k += 1;
  }
  h
}

/// Inverse of `spec_interleave` by a bit loop.
pub fn spec_deinterleave(h: u64) -> (u32, u32) {
  let mut i = 0u32;
  let mut j = 0u32;
  let mut k = 0u32;
  while k < 32 {
    i |= (((h >> (2 * k)) & 1) as u32) << k;
    j |= (((h >> (2 * k + 1)) & 1) as u32) << k;
    k += 1;
  }
  (i, j)
}

/// Number of cells at a depth, written independently of the crate: 12 * 4^depth.
pub fn spec_n_hash(depth: u8) -> u64 {
  12u64 << (2 * depth as u32)
}
