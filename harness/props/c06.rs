// C06 (discrete clauses) -- whole sky for a radius >= pi, packedness.

/// A cone of radius >= pi is the whole sky: exactly the 12 base cells, all full, in a BMOC of depth_max = depth.
pub fn p_c06_allsky(depth: u8, delta: u8, lon: f64, lat: f64, r: f64) {
  if !(depth as u32 + delta as u32 <= 29 && r >= REF_PI) { return; }
  let m = if delta == 0 { hp::nested::cone_coverage_approx(depth, lon, lat, r) } else { hp::nested::cone_coverage_approx_custom(depth, delta, lon, lat, r) };
  assert!(m.get_depth_max() == depth, "C06: whole-sky coverage has the wrong depth_max");
  assert!(m.entries.len() == 12, "C06: a radius >= pi does not give exactly 12 cells");
  let mut k = 0usize;
  while k < 12 {
    assert!(m.entries[k] == spec_raw(depth, 0, k as u64, true), "C06: a radius >= pi does not give the 12 full base cells");
    k += 1;
  }
}
