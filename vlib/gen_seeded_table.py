#!/usr/bin/env python3
"""Prints the markdown table of seeded changes (from /verif/seeded/*/meta.json) for DESIGN.md."""
import json, glob, os, re
rows = []
for d in sorted(glob.glob('/verif/seeded/*')):
    mp = os.path.join(d, 'meta.json')
    if not os.path.exists(mp):
        continue
    m = json.load(open(mp))
    note = m.get('needs_to_manifest', '').replace('\n', ' ')
    note = re.sub(r'\s+', ' ', note)[:200]
    cr = m.get('check_run', {})
    cmd = cr.get('cmd', '')
    mo = re.search(r'try_mutant\.sh (\S+) \S+ \S+patch\.diff ?(.*)$', cmd)
    how = ('`./check %s %s`' % (mo.group(1), mo.group(2) or '--tier quick')) if mo else ''
    if cr.get('detected'):
        det = 'caught by ' + ', '.join(sorted(set(v['harness'] for v in cr['violations']))[:3]) + ' (' + how + ')'
    elif cr:
        det = 'NOT caught: ' + (cr.get('why') or '; '.join(cr.get('inconclusive', []))[:160] or 'no violation')
    else:
        det = 'not run'
    if m.get('note'):
        det += ' -- ' + m['note']
    rh = m.get('recheck_on_head')
    if rh and 'detected' in rh:
        det += ' [re-run on HEAD %s: %s]' % (rh.get('head', ''), 'caught' if rh['detected'] else 'not caught')
    rows.append('| %s | %s | %s |' % (m['id'], note.replace('|', '/'), det.replace('|', '/')))
print('| seeded change | what it changes / what it needs to manifest (first 200 characters of note.txt) | result on the mutated tree |')
print('|---|---|---|')
print('\n'.join(rows))
