/// Shim: BMOC::create_unsafe is pub(super) of nested::bmoc.
pub(crate) fn verif_create_unsafe(dm: u8, b: Box<[u64]>) -> BMOC { BMOC::create_unsafe(dm, b) }

/// Operand with a concrete depth_max and a concrete number of entries; depth/hash/flag of each entry symbolic.
/// Straight-line (no loop); the unused slots are still drawn so that the input layout is fixed for the replay decoder.
fn any_ops(n: usize, dm: u8) -> Ops {
  let (d0, h0, f0): (u8, u64, bool) = (kani::any(), kani::any(), kani::any());
  let (d1, h1, f1): (u8, u64, bool) = (kani::any(), kani::any(), kani::any());
  let (d2, h2, f2): (u8, u64, bool) = (kani::any(), kani::any(), kani::any());
  let (d3, h3, f3): (u8, u64, bool) = (kani::any(), kani::any(), kani::any());
  let mut o = Ops { dm, n, d: [0; 4], h: [0; 4], f: [false; 4] };
  if n > 0 { o.d[0] = d0; o.h[0] = h0; o.f[0] = f0; }
  if n > 1 { o.d[1] = d1; o.h[1] = h1; o.f[1] = f1; }
  if n > 2 { o.d[2] = d2; o.h[2] = h2; o.f[2] = f2; }
  if n > 3 { o.d[3] = d3; o.h[3] = h3; o.f[3] = f3; }
  o
}

fn k_bmoc_op(op: u8, mode: u8, na: usize, nb: usize, dma: u8, dmb: u8) {
  let a = any_ops(na, dma);
  let b = any_ops(nb, dmb);
  let c: u64 = kani::any();
  kani::assume(a.valid() && (op == 0 || b.valid()));
  if mode == 1 { kani::assume(a.all_full() && a.packed() && (op == 0 || (b.all_full() && b.packed()))); }
  let dm = if op == 0 || a.dm >= b.dm { a.dm } else { b.dm };
  kani::assume(c < spec_n_hash(dm));
  kani::cover!(true, "operands exist");
  p_bmoc_op(op, mode, &a, &b, c);
}

fn k_bmoc_identity(id: u8, na: usize, dm: u8) {
  let a = any_ops(na, dm);
  kani::assume(a.valid() && a.all_full() && a.packed());
  kani::cover!(true, "operands exist");
  p_bmoc_identity(id, &a);
}

fn k_bmoc_builder_layout(n: usize, dm: u8) {
  let a = any_ops(n, dm);
  kani::assume(a.valid());
  kani::cover!(true, "operands exist");
  p_bmoc_builder_layout(&a);
}

fn k_bmoc_equals(na: usize, nb: usize, dm: u8) {
  let a = any_ops(na, dm);
  let b = any_ops(nb, dm);
  let c: u64 = kani::any();
  kani::assume(a.valid() && b.valid() && a.all_full() && b.all_full() && a.packed() && b.packed() && a.dm == b.dm);
  kani::assume(c < spec_n_hash(a.dm));
  kani::cover!(na == nb && (na == 0 || (a.d[0] == b.d[0] && a.h[0] == b.h[0])), "equal first entries");
  p_bmoc_equals(&a, &b, c);
}

// ---- allocator-growth model (DESIGN.md, BMOC family) -------------------------------------------------------------
// CBMC pays for every potential Vec reallocation (a new heap object per push site and unrolled iteration). The builder's
// push methods are one-liners around Vec::push; they are replaced by the same code writing into a preallocated buffer
// whose capacity is checked by an assertion (so exceeding it is reported, never silently truncated). build_raw_value,
// pack, to_lower_depth, to_bmoc* and every operator remain the real code. BMOCBuilderUnsafe::push itself is decided
// without this model by the builder-layout harness.
pub(crate) const VERIF_CAP: usize = 40;

pub(crate) fn stub_builder_new(depth_max: u8, _capacity: usize) -> BMOCBuilderUnsafe {
  BMOCBuilderUnsafe { depth_max, entries: Some(Vec::with_capacity(VERIF_CAP)) }
}

fn model_push(v: &mut Vec<u64>, x: u64) {
  let n = v.len();
  assert!(n < VERIF_CAP, "verif model: preallocated builder capacity exceeded");
  unsafe { std::ptr::write(v.as_mut_ptr().add(n), x); v.set_len(n + 1); }
}

pub(crate) fn stub_builder_push(b: &mut BMOCBuilderUnsafe, depth: u8, hash: u64, is_full: bool) -> &mut BMOCBuilderUnsafe {
  let dm = b.depth_max;
  if let Some(ref mut v) = b.entries {
    model_push(v, super::build_raw_value(depth, hash, is_full, dm));
  } else {
    panic!("Empty builder, you have to re-init it before re-using it!");
  }
  b
}

pub(crate) fn stub_builder_push_raw(b: &mut BMOCBuilderUnsafe, raw_value: u64) -> &mut BMOCBuilderUnsafe {
  if let Some(ref mut v) = b.entries {
    model_push(v, raw_value);
  } else {
    panic!("Empty builder, you have to re-init it before re-using it!");
  }
  b
}

/// Cut at `pack` for or / xor: both end with `builder.to_bmoc_packing()`. In their harnesses the packing step is skipped
/// (the result is the merged, not yet packed, sequence); `pack` itself is decided on arbitrary valid sequences by the
/// pack harnesses (C15), which show that it preserves the cell->state map and well-formedness and leaves no four full siblings.
pub(crate) fn stub_to_bmoc_packing(b: &mut BMOCBuilderUnsafe) -> BMOC { b.to_bmoc() }

fn k_pack(n: usize, dm: u8) {
  let a = any_ops(n, dm);
  let c: u64 = kani::any();
  kani::assume(a.valid() && c < spec_n_hash(dm));
  kani::cover!(!a.packed(), "sequence with four full siblings");
  p_pack(&a, c);
}

/// pack on sequences whose entries all have depth `dfix` < depth_max (merging at a depth that is not the deepest one)
fn k_pack_d(n: usize, dm: u8, dfix: u8) {
  let a = any_ops(n, dm);
  let c: u64 = kani::any();
  kani::assume(a.valid() && c < spec_n_hash(dm));
  kani::assume((n < 1 || a.d[0] == dfix) && (n < 2 || a.d[1] == dfix) && (n < 3 || a.d[2] == dfix) && (n < 4 || a.d[3] == dfix));
  kani::cover!(!a.packed(), "sequence with four full siblings");
  kani::cover!(n == 4 && !a.f[0] && a.f[1] && a.f[2] && a.f[3] && (a.h[0] & 3) == 0 && a.h[3] == a.h[0] + 3, "partial first sibling followed by three full siblings");
  p_pack(&a, c);
}

fn k_lower(n: usize, dm: u8, nd: u8, packing: bool) {
  let a = any_ops(n, dm);
  let c: u64 = kani::any();
  kani::assume(a.valid() && c < spec_n_hash(dm));
  kani::cover!(n == 0 || a.d[0] > nd, "cell deeper than the new depth");
  p_lower(&a, nd, packing, c);
}

/// Cut at `pack` for callers that pack a concrete sequence (all-sky coverage): identity; pack is decided by the pack harnesses.
pub(crate) fn stub_pack_identity(b: &mut BMOCBuilderUnsafe) -> Vec<u64> { b.entries.take().expect("Empty builder!") }
