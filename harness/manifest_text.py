"""Texts of MANIFEST.json (levels, notes, not-applicable reasons)."""

HOOKS = {
    'guard': 'none: /repo carries no instrumentation; harness modules are injected under cfg(kani) into a scratch snapshot of /repo/src taken at the start of every run',
    'enable': 'cargo kani -Z stubbing on the snapshot (cfg(kani) is set by Kani itself); nothing to enable in /repo',
    'baseline_off_cmd': 'cd /repo && cargo test --workspace --no-fail-fast --offline',
    'source_commits': [],
    'add_only': True,
}

NOTES = ('All checks are bounded: each harness is decided by the SAT solver for every value of its symbolic domain and says '
         'nothing outside the bounds written in its evidence file (coverage.bounds / outside_bounds / samples[].domain). '
         'Exit 2 = inconclusive (time-out, OOM, harness no longer compiles against the code, counter-example not reproduced natively).')

_PENDING = 'check not built yet in this session (see DESIGN.md section 5 for the plan); will be claimed once its harnesses run'

NOT_APPLICABLE = {
    'C05': 'every clause needs true spherical distances (haversine, asin o sqrt, f64 % f64 envelope) inside a recursive heap-allocating search; a bit-precise solver has no theory of sin/cos and contract stubs make the statement vacuous (DESIGN.md section 6)',
    'C12': 'point-in-polygon by great-circle crossings, bounding cone, Newton iteration: real trigonometry throughout, no discrete clause (well-formedness is covered structurally under C09) (DESIGN.md section 6)',
    'C13': 'SIN projection + Mahalanobis overlap heuristic on real trigonometry; the only discrete clause is a one-line guard (DESIGN.md section 6)',
    'C20': 'quantifies over thread interleavings of an unsynchronised static mut read; Kani does not model threads and no other symbolic engine for Rust concurrency is installed (DESIGN.md section 6)',
}
for _p in ('C01', 'C02', 'C03', 'C06', 'C07', 'C08', 'C09', 'C10', 'C11', 'C14', 'C15', 'C17', 'C19'):
    NOT_APPLICABLE.setdefault(_p, _PENDING)

CHECKS = {
    'C04': dict(
        text='Bounded model checking per depth: for EVERY cell a and EVERY other cell c of the depth (both symbolic) the neighbour map of a is '
             'compared with an integer plane-geometry oracle (vertex coordinates in units of 1/nside, polar-cap seam identifications): each '
             'ordinal entry shares exactly the two vertices of that edge, each cardinal entry exactly that vertex, the number of entries is '
             '8 minus the number of three-cell points among the vertices, neighbour(h,dir) agrees with the map, and c touches a <=> c is in the map '
             '(which gives exactness and symmetry). Out-of-range cell numbers must panic. Seam cells are a measure-zero set that tests miss; the solver covers all pairs.',
        design_ref='DESIGN.md section 5, C04',
        note='Trusted: Kani/CBMC/CaDiCaL, the plane oracle (harness/common/oracles.rs). Bound: the depths listed in the evidence (quick 0..3, thorough up to 29 as they complete); '
             'one harness per concrete depth.',
    ),
    'C16': dict(
        text='Table clause only: for every IEEE double r, best_starting_depth(r) returns d with limit(d) > r and (d = 29 or limit(d+1) <= r), '
             'has_best_starting_depth(r) <=> r < limit(0), refused radii panic, the table is strictly decreasing. Comparisons only, decided for all 2^64 doubles.',
        design_ref='DESIGN.md section 5, C16',
        note='NOT decided (stated): that the centre-to-vertex helpers dominate the true distances and that a cone of radius r fits in 9 cells at that depth -- '
             'true spherical trigonometry and f64 % f64, outside the reach of a bit-precise solver. Trusted: the documented table copied into the oracle.',
    ),
    'C18': dict(
        text='Bounded model checking at full machine width: every z-order implementation of the default build (Empty/Small/Mediu/Large LUT, '
             'LargeZOCxor) is compared with a 32-step bit-loop specification for every depth of its class and every (i, j) / every hash, in both '
             'directions; to_uniq/from_uniq(_ivoa) round trip, closed form and injectivity for every depth and hash; depth > 29 rejected. '
             'The domain is finite and the solver covers all of it, which sampling cannot (2^58 inputs per class).',
        design_ref='DESIGN.md section 5, C18',
        note='Trusted: rustc->Kani->CBMC->CaDiCaL, the bit-loop oracle. Outside: BMI2 (pdep/pext) build, never compiled by the default build or the test-suite.',
    ),
}
