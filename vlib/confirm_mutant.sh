#!/bin/sh
# confirm_mutant.sh <worktree> <mutant dir>: (1) existing lib tests pass with the patch, (2) demo fails with it, (3) demo passes without it
wt=$1; md=$2
cd $wt || exit 3
export CARGO_NET_OFFLINE=true
git checkout -q -- src; rm -rf tests/vdemo.rs
git apply $md/patch.diff || { echo "RESULT apply-failed"; exit 3; }
mkdir -p tests; cp $md/demo.rs tests/vdemo.rs
t1=$(cargo test --offline --lib --target-dir $wt/target 2>&1 | grep -E "^test result" | head -1)
cargo test --offline --test vdemo --target-dir $wt/target > /tmp/vdemo_with.log 2>&1; rc_with=$?
git checkout -q -- src
cargo test --offline --test vdemo --target-dir $wt/target > /tmp/vdemo_without.log 2>&1; rc_without=$?
rm -f tests/vdemo.rs; rmdir tests 2>/dev/null; rm -f hpx.8.csv
echo "RESULT suite_with_patch=[$t1] demo_with_patch_rc=$rc_with demo_without_patch_rc=$rc_without"
