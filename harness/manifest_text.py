"""Texts of MANIFEST.json (levels, notes, not-applicable reasons)."""

HOOKS = {
    'guard': 'none: /repo carries no instrumentation; harness modules are injected under cfg(kani) into a scratch snapshot of /repo/src taken at the start of every run',
    'enable': 'cargo kani -Z stubbing on the snapshot (cfg(kani) is set by Kani itself); nothing to enable in /repo',
    'baseline_off_cmd': 'cd /repo && cargo test --workspace --no-fail-fast --offline',
    'source_commits': [],
    'add_only': True,
}

NOTES = ('All checks are bounded: each harness is decided by the SAT solver for every value of its symbolic domain and says '
         'nothing outside the bounds written in its evidence file (coverage.bounds / outside_bounds / samples[].domain). '
         'A harness that hits its time / memory cap is reported UNDECIDED (listed in the evidence, never counted as held) and does not change the exit code. '
         'Exit 2 = inconclusive (harness no longer compiles against the code, unwinding assertion, unsatisfied reachability witness, libm contract validation failed, '
         'counter-example not reproduced natively, or nothing decided within the caps). Genuine defects found and repaired in /repo are listed in known_findings.json (fixed: entries suppress nothing); '
         'changes seeded to test the checks are under seeded/ (never applied to /repo).')

_PENDING = 'check built but not yet validated on the unchanged tree in this session (see DESIGN.md section 10); claimed once its quick tier passes'

NOT_APPLICABLE = {
    'C05': 'every clause needs true spherical distances (haversine, asin o sqrt, f64 % f64 envelope) inside a recursive heap-allocating search; a bit-precise solver has no theory of sin/cos and contract stubs make the statement vacuous (DESIGN.md section 6)',
    'C12': 'point-in-polygon by great-circle crossings, bounding cone, Newton iteration: real trigonometry throughout, no discrete clause (well-formedness is covered structurally under C09) (DESIGN.md section 6)',
    'C13': 'SIN projection + Mahalanobis overlap heuristic on real trigonometry; the only discrete clause is a one-line guard (DESIGN.md section 6)',
    'C20': 'quantifies over thread interleavings of an unsynchronised static mut read; Kani does not model threads and no other symbolic engine for Rust concurrency is installed (DESIGN.md section 6)',
}

# properties whose check is registered in MANIFEST.json (validated on the unchanged tree)
READY = ['C01','C02','C03','C04','C06','C07','C08','C09','C10','C11','C14','C15','C16','C17','C18','C19']

CHECKS = {
    'C01': dict(
        text='Bounded model checking over all doubles: (E) the public nested::hash at concrete depths is total and in range for every lon in [-25.2, 25.2] and lat in '
             '[-pi/2, pi/2] under libm contracts; (R)+(P) the real base-cell / in-cell computation satisfies the range facts the scaling relies on and agrees with the '
             'reference projection within 2^-46; (S) the exponent-bit scaling, clamp and bit interleaving give exactly floor of the scaled in-cell coordinates for every depth 0..29 '
             '(symbolic) and every interface value; (G) out-of-range or NaN latitudes panic. Counter-examples are confirmed natively against a reference projection + point-in-diamond oracle.',
        design_ref='DESIGN.md sections 3.2, 3.3, 5 C01',
        note='Assumes the libm contracts (validated on the platform libm each run) and the assume-guarantee cut at Layer::d0h_lh_in_d0c (R proved on the producer, assumed by the consumer; '
             'the north-cap part of R takes 20-25 min per harness and runs in the thorough tier only -- the quick tier covers the north cap end to end at depths 0..3). '
             'P in the polar caps: base cell, h, sign and range of l for every position; the exact value of l (a second symbolic 53x53 multiplier) only in the thorough tier for cosines with <= 6 significant bits. |lon| <= 25.2.',
    ),
    'C02': dict(
        text='hash at depth d equals hash at depth d+1 shifted by 2 bits for every finite in-cell coordinate pair satisfying lemma R (all doubles, incl. values on and 1 ulp around every cell border) '
             'and every d in 0..28 (symbolic); lemma R itself is decided on the real producer for every position. Non-adjacent depths follow by transitivity.',
        design_ref='DESIGN.md sections 3.3, 5 C02',
        note='Assume-guarantee cut at the depth-independent Layer::d0h_lh_in_d0c (no self parameter: depth independence by signature); libm contracts for lemma R '
             '(north-cap part of R: thorough tier only, 20-25 min per harness).',
    ),
    'C03': dict(
        text='Plane-level consistency of the accessors, per depth, for every cell: centre = plane oracle and hashes back with offsets (0.5, 0.5); vertex / vertices / vertices_map bit-identical and = centre +- 1/nside; '
             'every edge-path / grid point lies on the cell and, nudged inwards, hashes back (thorough); hash_with_dxdy is total on the HEALPix image, in range, offsets in [-2^-48 nside, 1]; for image points whose offsets hit '
             'the bounds (polar base-cell borders, poles, rounding) the returned cell contains the point; out-of-range cell numbers panic for all 9 accessors.',
        design_ref='DESIGN.md sections 3.3, 5 C03',
        note='Plane cut: proj returns an arbitrary image point (guarantee I: decided in C17 for the equatorial region, assumed in the polar caps), unproj is the identity on the plane; Layer::d0h_lh_in_d0c under the cut returns any placement of '
             'the same plane point within 2^-46 (lemmas R / P of C01). NOT decided by a registered command (undecided after 40 min per harness, tier extended; native oracle only): sph_coo inverts hash_with_dxdy for generic offsets, the '
             'interior-offset round trip, the hash (hash_v2) vs hash_with_dxdy clause and the 1e-13 rad figure.',
    ),
    'C04': dict(
        text='Bounded model checking per depth: for EVERY cell a and EVERY other cell c of the depth (both symbolic) the neighbour map of a is '
             'compared with an integer plane-geometry oracle (vertex coordinates in units of 1/nside, polar-cap seam identifications): each '
             'ordinal entry shares exactly the two vertices of that edge, each cardinal entry exactly that vertex, the number of entries is '
             '8 minus the number of three-cell points among the vertices, neighbour(h,dir) agrees with the map, and c touches a <=> c is in the map '
             '(which gives exactness and symmetry). Out-of-range cell numbers must panic. Seam cells are a measure-zero set that tests miss; the solver covers all pairs.',
        design_ref='DESIGN.md section 5, C04',
        note='Trusted: Kani/CBMC/CaDiCaL, the plane oracle (harness/common/oracles.rs). Bound: the depths listed in the evidence (quick 0..3, thorough up to 29 as they complete); '
             'one harness per concrete depth.',
    ),
    'C16': dict(
        text='Table clause only: for every IEEE double r, best_starting_depth(r) returns d with limit(d) > r and (d = 29 or limit(d+1) <= r), '
             'has_best_starting_depth(r) <=> r < limit(0), refused radii panic, the table is strictly decreasing. Comparisons only, decided for all 2^64 doubles.',
        design_ref='DESIGN.md section 5, C16',
        note='NOT decided (stated): that the centre-to-vertex helpers dominate the true distances and that a cone of radius r fits in 9 cells at that depth -- '
             'true spherical trigonometry and f64 % f64, outside the reach of a bit-precise solver. Trusted: the documented table copied into the oracle.',
    ),
    'C18': dict(
        text='Bounded model checking at full machine width: every z-order implementation of the default build (Empty/Small/Mediu/Large LUT, '
             'LargeZOCxor) is compared with a 32-step bit-loop specification for every depth of its class and every (i, j) / every hash, in both '
             'directions; to_uniq/from_uniq(_ivoa) round trip, closed form and injectivity for every depth and hash; depth > 29 rejected. '
             'The domain is finite and the solver covers all of it, which sampling cannot (2^58 inputs per class).',
        design_ref='DESIGN.md section 5, C18',
        note='Trusted: rustc->Kani->CBMC->CaDiCaL, the bit-loop oracle. Outside: BMI2 (pdep/pext) build, never compiled by the default build or the test-suite.',
    ),
}
