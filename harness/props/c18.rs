// C18 -- bit-level encodings: z-order interleaving and uniq numbers. Shared by the Kani harnesses and the
// native replay. `hp` is the crate under test.

pub fn p_c18_ij2h(d: u8, i: u32, j: u32) {
  if !(d <= 29 && (i as u64) < (1u64 << d) && (j as u64) < (1u64 << d)) { return; }
  let z = hp::nested::zordercurve::get_zoc(d);
  let h = z.ij2h(i, j);
  assert!(h == spec_interleave(i, j), "C18: ij2h is not the bit interleaving of (i, j)");
  assert!(z.i02h(i) == spec_interleave(i, 0), "C18: i02h is not the restriction of ij2h to j = 0");
  assert!(z.oj2h(j) == spec_interleave(0, j), "C18: oj2h is not the restriction of ij2h to i = 0");
  let ij = z.h2ij(h);
  assert!(z.ij2i(ij) == i && z.ij2j(ij) == j, "C18: h2ij + ij2i/ij2j do not invert ij2h");
}

pub fn p_c18_h2ij(d: u8, h: u64) {
  if !(d <= 29 && h < (1u64 << (2 * d as u32))) { return; }
  let z = hp::nested::zordercurve::get_zoc(d);
  let ij = z.h2ij(h);
  let (i, j) = (z.ij2i(ij), z.ij2j(ij));
  let (si, sj) = spec_deinterleave(h);
  assert!(i == si && j == sj, "C18: h2ij/ij2i/ij2j is not the bit de-interleaving of h");
  assert!(z.ij2h(i, j) == h, "C18: ij2h does not invert h2ij");
  // h2i0 (de-interleave keeping only the even bits) on a hash without odd bits
  let he = h & 0x5555_5555_5555_5555u64;
  assert!(z.ij2i(z.h2i0(he)) == si, "C18: h2i0 is not the restriction of h2ij");
}

/// The public `LargeZOCxor` implementation (benchmark alternative), full 32-bit coordinates.
pub fn p_c18_xor(i: u32, j: u32) {
  use hp::nested::zordercurve::ZOrderCurve;
  let z = &hp::nested::zordercurve::LARGE_ZOC_XOR;
  let h = z.ij2h(i, j);
  assert!(h == spec_interleave(i, j), "C18: LargeZOCxor::ij2h is not the bit interleaving");
  assert!(z.i02h(i) == spec_interleave(i, 0), "C18: LargeZOCxor::i02h");
  assert!(z.oj2h(j) == spec_interleave(0, j), "C18: LargeZOCxor::oj2h");
  let ij = z.h2ij(h);
  assert!(z.ij2i(ij) == i && z.ij2j(ij) == j, "C18: LargeZOCxor::h2ij does not invert ij2h");
  assert!(z.ij2i(z.h2i0(spec_interleave(i, 0))) == i, "C18: LargeZOCxor::h2i0");
}

/// The public `LargeZOC` (LUT) implementation on full 32-bit coordinates.
pub fn p_c18_lut_full(i: u32, j: u32) {
  use hp::nested::zordercurve::ZOrderCurve;
  let z = &hp::nested::zordercurve::LARGE_ZOC_LUT;
  let h = z.ij2h(i, j);
  assert!(h == spec_interleave(i, j), "C18: LargeZOC::ij2h is not the bit interleaving");
  let ij = z.h2ij(h);
  assert!(z.ij2i(ij) == i && z.ij2j(ij) == j, "C18: LargeZOC::h2ij does not invert ij2h");
}

pub fn p_c18_uniq(d: u8, h: u64) {
  if !(d <= 29 && h < spec_n_hash(d)) { return; }
  let u = hp::nested::to_uniq(d, h);
  assert!(u == (16u64 << (2 * d as u32)) + h, "C18: to_uniq is not 16*4^depth + hash");
  assert!(hp::nested::from_uniq(u) == (d, h), "C18: from_uniq does not invert to_uniq");
  let v = hp::nested::to_uniq_ivoa(d, h);
  assert!(v == (4u64 << (2 * d as u32)) + h, "C18: to_uniq_ivoa is not 4*4^depth + hash");
  assert!(hp::nested::from_uniq_ivoa(v) == (d, h), "C18: from_uniq_ivoa does not invert to_uniq_ivoa");
}

/// Layer::to_uniq / to_uniq_ivoa (methods of the per-depth layer) agree with the free functions.
pub fn p_c18_uniq_layer(d: u8, h: u64) {
  if !(d <= 29 && h < spec_n_hash(d)) { return; }
  let l = hp::nested::get_or_create(d);
  assert!(l.to_uniq(h) == (16u64 << (2 * d as u32)) + h, "C18: Layer::to_uniq is not 16*4^depth + hash");
  assert!(l.to_uniq_ivoa(h) == (4u64 << (2 * d as u32)) + h, "C18: Layer::to_uniq_ivoa is not 4*4^depth + hash");
}

pub fn p_c18_uniq_inj(d1: u8, h1: u64, d2: u8, h2: u64) {
  if !(d1 <= 29 && h1 < spec_n_hash(d1) && d2 <= 29 && h2 < spec_n_hash(d2)) { return; }
  if d1 == d2 && h1 == h2 { return; }
  assert!(hp::nested::to_uniq(d1, h1) != hp::nested::to_uniq(d2, h2), "C18: two (depth, hash) pairs share a uniq number");
  assert!(hp::nested::to_uniq_ivoa(d1, h1) != hp::nested::to_uniq_ivoa(d2, h2), "C18: two (depth, hash) pairs share an IVOA uniq number");
}

pub fn p_c18_uniq_guard(d: u8, h: u64, ivoa: bool) {
  if d <= 29 { return; }
  if ivoa { let _ = hp::nested::to_uniq_ivoa(d, h); } else { let _ = hp::nested::to_uniq(d, h); }
  panic!("C18-GUARD-NOT-TRIGGERED: to_uniq accepted depth > 29");
}
