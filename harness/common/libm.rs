// libm contract stubs (cut L1 of DESIGN.md); filled in with the float properties.
