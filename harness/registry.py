"""Registry of properties and harnesses. One entry of PROPS per claimed property.

A harness = one bounded-model-checking query:
  name     wrapper fn generated into the injected module (also the evidence / log key)
  call     body of the wrapper: a call of a k_* function of harness/kani/<prop>.rs
  tiers    subset of ('quick', 'thorough')
  timeout  seconds (time-out => inconclusive, exit 2)
  mem_gb   address-space cap of the cbmc process
  unwind   #[kani::unwind(n)] (unwinding assertions are always on)
  stubs    [(original, replacement)] -> #[kani::stub]
  inputs   [(name, type)]: the FIRST kani::any() calls of the harness, in order = public inputs used for native replay
  replay   name of the native replay function (replay/src/main.rs dispatch)
  covers   cover!() descriptions that must be SATISFIED (vacuity witnesses)
  never    cover!() descriptions that must NOT be satisfiable (guard harnesses)
"""

Q = ('quick', 'thorough')
T = ('thorough',)


def H(name, call, tiers=Q, timeout=600, mem_gb=8, **kw):
    d = dict(name=name, call=call, tiers=tiers, timeout=timeout, mem_gb=mem_gb)
    d.update(kw)
    return d


PROPS = {}

# ------------------------------------------------------------------------------------------- C18
_c18 = []
for cls, lo, hi in (('empty', 0, 0), ('small', 1, 8), ('mediu', 9, 16), ('large', 17, 29)):
    _c18.append(H('c18_ij2h_' + cls, 'k_c18_ij2h(%d, %d);' % (lo, hi), unwind=33, timeout=300,
                  inputs=[('d', 'u8'), ('i', 'u32'), ('j', 'u32')], replay='c18_ij2h',
                  covers=['top i, deepest depth of the class', 'shallowest depth of the class'],
                  domain='depth symbolic in %d..=%d, all (i, j) < 2^depth' % (lo, hi)))
    _c18.append(H('c18_h2ij_' + cls, 'k_c18_h2ij(%d, %d);' % (lo, hi), unwind=33, timeout=300,
                  inputs=[('d', 'u8'), ('h', 'u64')], replay='c18_h2ij',
                  covers=['largest hash of the class'],
                  domain='depth symbolic in %d..=%d, all h < 4^depth (decode-first direction)' % (lo, hi)))
_c18 += [
    H('c18_xor_full', 'k_c18_xor();', unwind=33, timeout=300, inputs=[('i', 'u32'), ('j', 'u32')], replay='c18_xor',
      covers=['full width'], domain='public LargeZOCxor, all (i, j) in u32 x u32'),
    H('c18_lut_full', 'k_c18_lut_full();', unwind=33, timeout=300, inputs=[('i', 'u32'), ('j', 'u32')], replay='c18_lut_full',
      covers=['full width'], domain='public LargeZOC (LUT), all (i, j) in u32 x u32'),
    H('c18_uniq', 'k_c18_uniq();', timeout=300, inputs=[('d', 'u8'), ('h', 'u64')], replay='c18_uniq',
      covers=['last cell of depth 29', 'last base cell'], domain='depth symbolic 0..=29, all hash < 12*4^depth'),
    H('c18_uniq_inj', 'k_c18_uniq_inj();', timeout=300,
      inputs=[('d1', 'u8'), ('h1', 'u64'), ('d2', 'u8'), ('h2', 'u64')], replay='c18_uniq_inj',
      covers=['adjacent depths'], domain='two symbolic valid (depth, hash) pairs'),
    H('c18_uniq_guard', 'k_c18_uniq_guard(false);', timeout=120, should_panic=True,
      inputs=[('d', 'u8'), ('h', 'u64')], replay='c18_uniq_guard', replay_const={'ivoa': 0},
      never=['guard bypassed'], domain='depth symbolic > 29, all hash'),
    H('c18_uniq_ivoa_guard', 'k_c18_uniq_guard(true);', timeout=120, should_panic=True,
      inputs=[('d', 'u8'), ('h', 'u64')], replay='c18_uniq_guard', replay_const={'ivoa': 1},
      never=['guard bypassed'], domain='depth symbolic > 29, all hash'),
]
for _d in range(30):
    _c18.append(H('c18_uniq_layer_d%d' % _d, 'k_c18_uniq_layer(%d);' % _d, tiers=Q if _d in (0, 29) else T, timeout=300,
                  inputs=[('h', 'u64')], replay='c18_uniq_layer', replay_const={'d': _d}, covers=['last cell'],
                  domain='Layer of depth %d, all hash < 12*4^depth' % _d))
PROPS['C18'] = dict(
    inject=[dict(host='src/nested/mod.rs', mod='verif_c18', parts=['props/c18.rs', 'kani/c18.rs'])],
    harnesses=_c18,
    functions=['nested::zordercurve::get_zoc', 'EmptyZOC/SmallZOC/MediuZOC/LargeZOC::{ij2h,i02h,oj2h,h2ij,h2i0,ij2i,ij2j}',
               'LargeZOCxor::*', 'nested::{to_uniq,to_uniq_ivoa,from_uniq,from_uniq_ivoa}', 'Layer::{to_uniq,to_uniq_ivoa}'],
    bounds={'all': 'full machine width: every depth 0..=29 (symbolic inside each z-order class), every (i, j) < 2^depth, '
                   'every hash < 4^depth; oracle bit loop unwound 32 times (unwind 33, unwinding assertions on)'},
    outside='the BMI2 (pdep/pext) implementations: compiled only with target-feature=+bmi2, which neither the default build '
            'nor the test-suite uses; Kani has no model of the intrinsics',
    assumptions=['little-endian x86_64 target (as compiled by Kani); default build, no BMI2'],
)

# ------------------------------------------------------------------------------------------- C16
_c16 = [
    H('c16_bsd', 'k_c16_bsd();', timeout=300, inputs=[('r', 'f64')], replay='c16_bsd',
      covers=['r exactly a table entry', 'negative r', 'NaN', 'tiny r'], domain='all 2^64 doubles r (incl. NaN, infinities, negatives)'),
    H('c16_monotone', 'k_c16_monotone();', timeout=120, inputs=[('k', 'u8')], replay='c16_monotone',
      domain='all 29 adjacent table pairs'),
    H('c16_guard', 'k_c16_guard();', timeout=120, should_panic=True, inputs=[('r', 'f64')], replay='c16_guard',
      covers=['NaN refused'], never=['guard bypassed'], domain='all doubles refused by has_best_starting_depth'),
]
for _d in range(30):
    _c16.append(H('c16_depth_%d' % _d, 'k_c16_each_depth(%d);' % _d, tiers=Q if _d in (0, 1, 15, 28, 29) else T, timeout=120,
                  inputs=[('r', 'f64')], replay='c16_bsd', covers=['interval non empty'],
                  domain='all doubles in [limit(%d+1), limit(%d))' % (_d, _d)))
PROPS['C16'] = dict(
    inject=[dict(host='src/lib.rs', mod='verif_c16', parts=['props/c16.rs', 'kani/c16.rs'])],
    harnesses=_c16,
    functions=['has_best_starting_depth', 'best_starting_depth', 'SMALLER_EDGE2OPEDGE_DIST'],
    bounds={'all': 'every IEEE double r; no loops'},
    outside='NOT decided: that largest_center_to_vertex_distance* dominate the true distances and that a cone of radius r fits in 9 cells '
            'at the returned depth (true spherical trigonometry, f64 %% f64: outside the reach of a bit-precise solver, DESIGN.md 5 C16)',
    assumptions=['the documented 30-entry table (copied into the oracle) is the specification of the limits'],
)

# ------------------------------------------------------------------------------------------- C04
_c04 = []
for _d in range(30):
    tiers = Q if _d <= 3 else T
    _c04.append(H('c04_pair_d%d' % _d, 'k_c04_pair(%d);' % _d, tiers=tiers, timeout=1500 if _d <= 3 else 3000, mem_gb=10,
                  unwind=max(9, _d + 1), inputs=[('a', 'u64'), ('c', 'u64')], replay='c04_pair', replay_const={'depth': _d},
                  covers=['cell lacking its E neighbour', 'cell touching the north pole', 'edge neighbour in another base cell'],
                  domain='depth %d: all cells a x all other cells c (%d^2 pairs)' % (_d, 12 * 4 ** _d)))
for _d in (0, 1, 29):
    for single in (0, 1):
        _c04.append(H('c04_guard_d%d_%s' % (_d, 'one' if single else 'all'), 'k_c04_guard(%d, %s);' % (_d, 'true' if single else 'false'),
                      tiers=Q, timeout=300, should_panic=True, inputs=[('a', 'u64'), ('k', 'u8')], replay='c04_guard',
                      replay_const={'depth': _d, 'single': single}, never=['guard bypassed'],
                      domain='depth %d, all cell numbers >= 12*4^depth' % _d))
PROPS['C04'] = dict(
    inject=[dict(host='src/nested/mod.rs', mod='verif_c04', parts=['props/c04.rs', 'kani/c04.rs'])],
    harnesses=_c04,
    functions=['Layer::neighbours', 'Layer::neighbour', 'Layer::inner_cell_neighbours', 'Layer::edge_cell_neighbours',
               'Layer::neighbour_from_parts', 'Layer::neighbour_from_shifted_coos', 'Layer::{ncp,eqr,spc}_neighbour',
               'MainWind::{from_offsets,offset_se,offset_sw,index}', 'MainWindMap'],
    bounds={'quick': 'depths 0,1,2,3: every cell a and every other cell c of the depth (both symbolic, full range); guards at depths 0,1,29',
            'thorough': 'all depths 0..=29 (a depth that exceeds the time cap makes the check exit 2, it is never counted as held)'},
    outside='depths not listed for the tier',
    assumptions=['plane oracle: integer vertex coordinates in units of 1/nside with the polar-cap identifications (harness/common/oracles.rs)'],
)
