// C17 -- HEALPix projection and de-projection: in range, inverse of each other, base-cell exact.

/// Closed facet membership of a plane point with x in [0, 8], with slack eps on the oblique polar borders.
pub fn c17_in_image(x: f64, y: f64, eps: f64) -> bool {
  let ay = if y < 0.0 { -y } else { y };
  if !(x >= 0.0 && x <= 8.0 && ay <= 2.0) { return false; }
  if ay <= 1.0 { return true; }
  let mut q = (x * 0.5) as u64 as f64;
  if q > 3.0 { q = 3.0; }
  let u = x - (2.0 * q + 1.0);
  let au = if u < 0.0 { -u } else { u };
  au <= (2.0 - ay) + eps
}

/// proj: range and sign (no libm in the oracle: usable by the solver and natively)
pub fn p_c17_proj_basic(lon: f64, lat: f64) {
  if !(lat >= -0.5 * REF_PI && lat <= 0.5 * REF_PI && lon.abs() <= 25.2) { return; }
  let (x, y) = hp::proj(lon, lat);
  assert!(x >= -8.0 && x <= 8.0 && y >= -2.0 && y <= 2.0, "C17: proj out of [-8, 8] x [-2, 2]");
  let neg = lon.to_bits() >> 63 == 1;
  assert!(if neg { x <= 0.0 } else { x >= 0.0 }, "C17: x does not have the sign of the longitude");
  assert!((y.to_bits() >> 63 == 1) == (lat.to_bits() >> 63 == 1) || y == 0.0, "C17: y does not have the sign of the latitude");
}

/// proj: range, sign and image (the closed facets of the HEALPix image, slack 2^-50 on the oblique polar borders)
pub fn p_c17_proj_range(lon: f64, lat: f64) {
  if !(lat >= -0.5 * REF_PI && lat <= 0.5 * REF_PI && lon.abs() <= 25.2) { return; }
  p_c17_proj_basic(lon, lat);
  let (x, y) = hp::proj(lon, lat);
  let xa = if x < 0.0 { x + 8.0 } else { x };
  assert!(c17_in_image(xa, y, 1.0 / ((1u64 << 50) as f64)), "C17: proj leaves the HEALPix image (facets)");
}

/// unproj: range and sign for every point of the plane domain
pub fn p_c17_unproj_range(x: f64, y: f64) {
  if !(y >= -2.0 && y <= 2.0 && x >= -8.0 && x <= 8.0) { return; }
  let (lon, lat) = hp::unproj(x, y);
  assert!(lat >= -0.5 * REF_PI && lat <= 0.5 * REF_PI, "C17: unproj latitude out of [-pi/2, pi/2]");
  assert!(lon >= -2.0000000000000004 * REF_PI && lon <= 2.0000000000000004 * REF_PI, "C17: unproj longitude out of [-2pi, 2pi]");
  let neg = x.to_bits() >> 63 == 1;
  assert!(if neg { lon <= 0.0 } else { lon >= 0.0 }, "C17: unproj longitude does not have the sign of x");
  // inverse of proj, structural part: the longitude lies in the quarter [k pi/2, (k+1) pi/2] of the facet column of x and on the
  // same side of the column's central meridian as x (exact: every step from x to lon is monotone under rounding)
  let xa = f64::from_bits(x.to_bits() & 0x7FFF_FFFF_FFFF_FFFF);
  let la = f64::from_bits(lon.to_bits() & 0x7FFF_FFFF_FFFF_FFFF);
  if xa < 8.0 {
    let off = ((xa as u8) | 1) as f64;
    let c = 0.25 * REF_PI;
    assert!(la >= (off - 1.0) * c && la <= (off + 1.0) * c, "C17: unproj longitude outside the quarter of the facet column of x");
    assert!(!(xa < off) || la <= off * c, "C17: unproj longitude on the wrong side of the central meridian of the column (x west of it)");
    assert!(!(xa > off) || la >= off * c, "C17: unproj longitude on the wrong side of the central meridian of the column (x east of it)");
  }
}

/// base_cell_from_proj_coo = the base cell whose closed diamond contains the point (either one on a shared border).
pub fn p_c17_base_cell(x: f64, y: f64) {
  if !(x >= -8.0 && x < 8.0 && y >= -2.0 && y <= 2.0) { return; }
  let xa = if x < 0.0 { x + 8.0 } else { x };
  if !(xa < 8.0) { return; }
  if !c17_in_image(xa, y, 0.0) { return; }
  let b = hp::base_cell_from_proj_coo(x, y);
  assert!(b < 12, "C17: base cell out of range");
  let cx = BASE_CX[b as usize] as f64;
  let cy = BASE_CY[b as usize] as f64;
  // closed diamond of the base cell, up to the identifications of the sphere (a polar facet border is shared with the next facet)
  // and a rounding tolerance of 2^-50
  let e = ref_excess_center(cx, cy, 1.0, xa, y);
  assert!(e <= 8.881784197001252e-16, "C17: base_cell_from_proj_coo returns a base cell whose closed diamond does not contain the point");
}

pub fn p_c17_guard(which: u8, a: f64, b: f64) {
  if which == 0 {
    if b >= -0.5 * REF_PI && b <= 0.5 * REF_PI { return; }
    let _ = hp::proj(a, b);
  } else {
    if b >= -2.0 && b <= 2.0 { return; }
    let _ = hp::unproj(a, b);
  }
  panic!("C17-GUARD-NOT-TRIGGERED: out-of-range latitude / y accepted");
}

/// Native: agreement with the reference projection and both round trips (real libm).
#[cfg(not(kani))]
pub fn p_c17_native(lon: f64, lat: f64) {
  if !(lat >= -0.5 * REF_PI && lat <= 0.5 * REF_PI && lon.abs() <= 25.2) { return; }
  p_c17_proj_range(lon, lat);
  let (x, y) = hp::proj(lon, lat);
  let (xr, yr) = ref_proj(lon, lat);
  let xa = if x < 0.0 { x + 8.0 } else { x };
  let mut dx = (xa - xr) % 8.0;
  if dx > 4.0 { dx -= 8.0; }
  if dx < -4.0 { dx += 8.0; }
  assert!(dx.abs() <= 4e-14 && (y - yr).abs() <= 4e-14, "C17: proj differs from the Calabretta & Roukema formulae: lon {:e} lat {:e} got ({:e}, {:e}) expected ({:e}, {:e})", lon, lat, xa, y, xr, yr);
  let (lon2, lat2) = hp::unproj(x, y);
  assert!((lat2 - lat).abs() <= 1e-14, "C17: unproj(proj(p)) latitude differs by more than 1e-14: lon {:e} lat {:e} -> {:e}", lon, lat, lat2);
  // longitude modulo 2 pi, measured on the sphere (scaled by cos(lat))
  let mut dl = (lon2 - lon) % (2.0 * REF_PI);
  if dl > REF_PI { dl -= 2.0 * REF_PI; }
  if dl < -REF_PI { dl += 2.0 * REF_PI; }
  assert!((dl * lat.cos()).abs() <= 1e-14 + 4e-16 * lon.abs(), "C17: unproj(proj(p)) longitude differs by more than 1e-14 on the sphere: lon {:e} lat {:e} -> {:e}", lon, lat, lon2);
  let b = hp::base_cell_from_proj_coo(x, y);
  let h0 = hp::nested::hash(0, lon, lat);
  if b as u64 != h0 {
    // allowed only on a shared border: both base cells must contain the point
    assert!(ref_excess(0, b as u64, xr, yr) <= 4e-14 && ref_excess(0, h0, xr, yr) <= 4e-14, "C17: base_cell_from_proj_coo(proj(p)) is not the depth-0 cell of p: lon {:e} ({:#x}) lat {:e} ({:#x}) proj ({:e}, {:e}) base cell {} hash0 {}", lon, lon.to_bits(), lat, lat.to_bits(), x, y, b, h0);
  }
}

#[cfg(not(kani))]
pub fn p_c17_native_plane(x: f64, y: f64) {
  if !(y >= -2.0 && y <= 2.0 && x >= -8.0 && x <= 8.0) { return; }
  p_c17_unproj_range(x, y);
  let xa = if x < 0.0 { x + 8.0 } else { x };
  if !c17_in_image(xa, y, 0.0) { return; }
  let (lon, lat) = hp::unproj(x, y);
  let (x2, y2) = hp::proj(lon, lat);
  let mut dx = (x2 - x) % 8.0;
  if dx > 4.0 { dx -= 8.0; }
  if dx < -4.0 { dx += 8.0; }
  // near a pole the longitude is meaningless: compare through the image identification (excess to a degenerate cell is not available), so only |y| is compared there
  let near_pole = 2.0 - y.abs() <= 1e-13;
  assert!((y2 - y).abs() <= 1e-14 && (near_pole || dx.abs() <= 1e-14), "C17: proj(unproj(x, y)) differs from (x, y) by more than 1e-14: ({:e}, {:e}) -> ({:e}, {:e})", x, y, x2, y2);
}
