fn k_c14_internal(depth: u8, delta: u8) {
  let hash: u64 = kani::any();
  let k: u32 = kani::any();
  let k2: u32 = kani::any();
  let m = (1u32 << delta) - 1;
  kani::assume(hash < spec_n_hash(depth) && k < 4 * m && k2 < 4 * m);
  kani::cover!(k == 4 * m - 1, "last cell of the walk");
  p_c14_internal(depth, delta, hash, k, k2);
}

fn k_c14_parts(depth: u8, delta: u8) {
  let hash: u64 = kani::any();
  let k: u32 = kani::any();
  kani::assume(hash < spec_n_hash(depth) && k <= (1u32 << delta) - 1);
  kani::cover!(k == (1u32 << delta) - 1, "last cell of a side");
  p_c14_parts(depth, delta, hash, k);
}

fn k_c14_external(depth: u8, delta: u8, sorted: bool) {
  let hash: u64 = kani::any();
  let c: u64 = kani::any();
  let k: u32 = kani::any();
  kani::assume(hash < spec_n_hash(depth) && c < spec_n_hash(depth + delta));
  kani::cover!((c >> (2 * (depth + delta) as u32)) != (hash >> (2 * depth as u32)) && c14_outside_and_adjacent(depth, delta, hash, c), "adjacent outside cell in another base cell");
  p_c14_external(depth, delta, hash, c, k, sorted);
}

fn k_c14_struct(depth: u8, delta: u8) {
  let hash: u64 = kani::any();
  let c: u64 = kani::any();
  kani::assume(hash < spec_n_hash(depth) && c < spec_n_hash(depth + delta));
  kani::cover!(c14_corner(depth, delta, hash, c, 2), "a north corner cell exists");
  p_c14_struct(depth, delta, hash, c);
}

fn k_c14_guard(depth: u8, delta: u8, which: u8) {
  let hash: u64 = kani::any();
  kani::assume(hash >= spec_n_hash(depth));
  match which {
    0 => { let _ = hp::nested::external_edge(depth, hash, delta); }
    1 => { let _ = hp::nested::external_edge_sorted(depth, hash, delta); }
    _ => { let _ = hp::nested::external_edge_struct(depth, hash, delta); }
  }
  kani::cover!(true, "guard bypassed");
}

fn k_c14_dirs(depth: u8) {
  let a: u64 = kani::any();
  let k: u8 = kani::any();
  kani::assume(a < spec_n_hash(depth) && k < 8);
  kani::cover!(a >> (2 * depth as u32) >= 8, "south polar base cell");
  kani::cover!(a >> (2 * depth as u32) < 4 && k == 7, "north polar base cell, N direction");
  p_c14_dirs(depth, a, k);
}
