// plane cut: proj / unproj are the identity on the plane (DESIGN.md 3.3). The harness chooses the plane point.
static mut PLANE: (u64, u64) = (0, 0);
pub(crate) fn stub_proj(_lon: f64, _lat: f64) -> (f64, f64) { unsafe { (f64::from_bits(PLANE.0), f64::from_bits(PLANE.1)) } }
pub(crate) fn stub_unproj(x: f64, y: f64) -> (f64, f64) {
  assert!(y >= -2.0 && y <= 2.0, "unproj domain: y outside [-2, 2]");
  (x, y)
}

fn any_image_point() -> (f64, f64) {
  let x: f64 = kani::any();
  let y: f64 = kani::any();
  kani::assume(x >= -8.0 && x <= 8.0 && y >= -2.0 && y <= 2.0);
  let xa = if x < 0.0 { x + 8.0 } else { x };
  kani::assume(c17_in_image(xa, y, 8.881784197001252e-16));   // the image of proj (guarantee I, decided in C17), slack 2^-50
  unsafe { PLANE = (x.to_bits(), y.to_bits()); }
  (xa, y)
}

/// every image point (role: 0 = outside the role of finding F4, 1 = inside it): total, in range, offsets in [0, 1], inside the cell of the returned number
/// region: 0 = y > 1, 1 = |y| <= 1, 2 = y < -1, 255 = any
/// quad: 0..=3 = x in [2 quad, 2 quad + 2) (quad 3 also takes x = 8), 255 = any
fn k_c11_point(nside: u32, role: u8, region: u8, quad: u8) {
  let (x, y) = any_image_point();
  if role < 2 { kani::assume(f4_role(x, y) == (role == 1)); }
  kani::assume(match region { 0 => y > 1.0, 1 => y >= -1.0 && y <= 1.0, 2 => y < -1.0, _ => true });
  if quad < 4 {
    kani::assume(x >= 2.0 * quad as f64 && (quad == 3 || x < 2.0 * quad as f64 + 2.0));
    kani::cover!(x > 2.0 * quad as f64 + 1.5, "east part of the column");
    kani::cover!(x < 2.0 * quad as f64 + 0.5, "west part of the column");
  } else {
    kani::cover!(x > 7.0, "last base cell column");
    kani::cover!(x < 0.5, "first base cell column");
  }
  let (h, dx, dy) = hp::ring::hash_with_dxdy(nside, 0.0, 0.0);
  assert!(h < c11_n_hash(nside), "C11: ring hash out of range");
  assert!(dx >= 0.0 && dx <= 1.0 && dy >= 0.0 && dy <= 1.0, "C11: offsets out of [0, 1]");
  let (cx, cy) = hp::ring::center_of_projected_cell(nside, h);
  let e = ref_excess_center(cx, cy, 1.0 / nside as f64, x, y);
  assert!(e <= 1e-12, "C11: the position is not inside the RING cell returned");
}

/// centre of every cell hashes back to the cell (in the plane), offsets (0.5, 0.5); sph_coo inverts hash_with_dxdy
/// part: 0..=2 = cell numbers of the first / second / third third of the range (any partition is exhaustive), 255 = all
fn k_c11_center(nside: u32, part: u8) {
  let h: u64 = kani::any();
  kani::assume(h < c11_n_hash(nside));
  let third = c11_n_hash(nside) / 3;
  if part < 3 { kani::assume(h >= third * part as u64 && (part == 2 || h < third * (part as u64 + 1))); }
  let (cx, cy) = hp::ring::center_of_projected_cell(nside, h);
  unsafe { PLANE = (cx.to_bits(), cy.to_bits()); }
  kani::cover!(part == 2 || part == 255 || h == third * (part as u64 + 1) - 1, "last cell of the part");
  kani::cover!(part < 2 || h == c11_n_hash(nside) - 1, "last cell");
  let (hh, dx, dy) = hp::ring::hash_with_dxdy(nside, 0.0, 0.0);
  assert!(hh == h, "C11: hashing the centre of a RING cell does not return the cell");
  assert!(dx > 0.4999 && dx < 0.5001 && dy > 0.4999 && dy < 0.5001, "C11: offsets of a cell centre are not (0.5, 0.5)");
  let (px, py) = hp::ring::sph_coo(nside, h, dx, dy);    // unproj = identity: plane coordinates
  let e = ref_excess_center(cx, cy, 0.0, px, py);
  assert!(e <= 1e-9, "C11: sph_coo does not invert hash_with_dxdy at a cell centre");
}

fn k_c11_order(nside: u32) {
  let r: u64 = kani::any();
  kani::assume(r < c11_n_hash(nside) - 1);
  kani::cover!(r == c11_n_hash(nside) - 2, "last pair");
  p_c11_order(nside, r);
}

fn k_c11_guard(nside: u32, which: u8) {
  let h: u64 = kani::any();
  let lon: f64 = kani::any();
  let lat: f64 = kani::any();
  match which {
    0 => { kani::assume(h >= c11_n_hash(nside)); let _ = hp::ring::center(nside, h); }
    1 => { kani::assume(h >= c11_n_hash(nside)); let _ = hp::ring::vertices(nside, h); }
    2 => { kani::assume(h >= c11_n_hash(nside)); let _ = hp::ring::sph_coo(nside, h, 0.5, 0.5); }
    _ => { kani::assume(!(lat >= -C_HALF_PI && lat <= C_HALF_PI)); let _ = hp::ring::hash(nside, lon, lat); }
  }
  kani::cover!(true, "guard bypassed");
}
